package main

import (
	"fmt"
	"io"
	"sort"
	"strconv"
	"strings"
	"sync"
	"time"

	"github.com/johannesboyne/gofakes3"
)

// gatePut wraps a backend: while armed, the next PutObject signals that it has been entered and
// waits until released (a slow disk, or a large assembled object)
type gatePut struct {
	gofakes3.Backend
	mu      sync.Mutex
	armed   bool
	entered chan struct{}
	release chan struct{}
}

func (g *gatePut) arm() {
	g.mu.Lock()
	g.armed, g.entered, g.release = true, make(chan struct{}), make(chan struct{})
	g.mu.Unlock()
}

func (g *gatePut) PutObject(b, k string, meta map[string]string, input io.Reader, size int64) (gofakes3.PutObjectResult, error) {
	g.mu.Lock()
	armed, entered, release := g.armed, g.entered, g.release
	g.armed = false
	g.mu.Unlock()
	if armed {
		close(entered)
		<-release
	}
	return g.Backend.PutObject(b, k, meta, input, size)
}

// forced interleavings around CompleteMultipartUpload: the backend write of the assembled object
// is held open while another request on the same upload (a part upload, a second complete, an
// abort) arrives. Both must finish, and the responses must have a sequential explanation.
func c07MultipartForced(kind string) {
	st := newStore(kind)
	gb := &gatePut{Backend: st.Backend}
	s := &Sess{prop: "c07", kind: kind, st: st, h: newServer(gb)}
	pre := "-"
	if isSingle(kind) {
		pre = hs(singleBucketName)
	}
	emit("c07", "H", kind, "auto=0,versioned=0,pages=0,failpage=0", pre)
	b := singleBucketName
	if !isSingle(kind) {
		s.MkBucket(b)
	}
	s.Put(b, "k", []byte("OLD"), nil)
	for i, second := range []string{"part", "complete", "abort", "listparts"} {
		uid := s.Initiate(b, "k", nil)
		e1 := s.UploadPart(b, "k", uid, 1, []byte(fmt.Sprintf("A%d-", i)))
		e2 := s.UploadPart(b, "k", uid, 2, []byte(fmt.Sprintf("B%d", i)))
		parts := []CPart{{1, e1}, {2, e2}}
		gb.arm()
		s.startCapture()
		var wg sync.WaitGroup
		wg.Add(1)
		go func() { defer wg.Done(); s.Complete(b, "k", uid, parts) }()
		if !waitOr(gb.entered, 5*time.Second) {
			s.flushCapture()
			emit("c07", "HANG", hs("complete never reached the backend write"))
			break
		}
		// a reader of the key is not held up by the pending write and still sees the previous object
		rg, hungGet := doDeadline(s.h, Req{Method: "GET", Path: "/" + b + "/k"}, 5*time.Second)
		wg.Add(1)
		go func() {
			defer wg.Done()
			switch second {
			case "part":
				s.UploadPart(b, "k", uid, 3, []byte("C"))
			case "complete":
				s.Complete(b, "k", uid, parts)
			case "abort":
				s.Abort(b, "k", uid)
			case "listparts":
				s.ListParts(b, "k", uid, -1, -1)
			}
		}()
		time.Sleep(50 * time.Millisecond) // let the second request reach whatever lock it needs
		close(gb.release)
		done := make(chan struct{})
		go func() { wg.Wait(); close(done) }()
		if !waitOr(done, 5*time.Second) || hungGet {
			emit("c07", "HANG", hs("complete overlapped by "+second+" of the same upload: the two requests do not both finish (deadlock)"))
			// is the server wedged for everybody else?
			if _, hung := doDeadline(s.h, Req{Method: "POST", Path: "/" + b + "/other?uploads", Body: []byte{}}, 3*time.Second); hung {
				emit("c07", "HANG", hs("afterwards no multipart request on any key is served"))
			}
			return // the store cannot be closed safely with requests stuck inside it
		}
		emit("c07", "RB")
		s.emitGet(b, "k", rg)
		s.flushCapture()
		emit("c07", "RP")
		s.Get(b, "k", "")
		s.ListParts(b, "k", uid, -1, -1)
		emit("c07", "RE")
		nontrivial(kind + "|complete-vs-" + second)
	}
	s.end()
}

type mpUpload struct {
	key   string
	id    string
	etags map[int]string
}

// rounds of simultaneous multipart requests (part uploads, completes, aborts, part listings and
// reads over one or two keys and two or three pending uploads), searched for a sequential order
func c07MultipartRounds(kind string, rng *Rng, nrounds int) {
	s := newSess("c07", kind, SessOpts{})
	b := singleBucketName
	if !isSingle(kind) {
		s.MkBucket(b)
	}
	keys := []string{"m1", "m2"}[:1+rng.Intn(2)]
	var ups []*mpUpload
	refresh := func(u *mpUpload) bool {
		pr := s.ListParts(b, u.key, u.id, -1, -1)
		if pr.Resp.Status != 200 {
			return false
		}
		u.etags = map[int]string{}
		for i, n := range pr.Nums {
			pn, _ := strconv.Atoi(n)
			u.etags[pn] = pr.ETags[i]
		}
		return true
	}
	for round := 0; round < nrounds; round++ {
		for len(ups) < 2+rng.Intn(2) {
			k := keys[rng.Intn(len(keys))]
			u := &mpUpload{key: k, id: s.Initiate(b, k, nil), etags: map[int]string{}}
			if u.id == "" {
				s.end()
				return
			}
			if rng.Intn(3) > 0 {
				u.etags[1] = s.UploadPart(b, k, u.id, 1, []byte(fmt.Sprintf("seed-%d-", round)))
			}
			ups = append(ups, u)
		}
		w := 2 + rng.Intn(4)
		var runs []func()
		for i := 0; i < w; i++ {
			u := ups[rng.Intn(len(ups))]
			if rng.Intn(3) == 0 {
				u = ups[0] // contention on one upload
			}
			x := rng.Intn(100)
			switch {
			case x < 40:
				pn := 1 + rng.Intn(3)
				body := []byte(fmt.Sprintf("r%d-c%d-%s|", round, i, string(rng.Bytes(2))))
				runs = append(runs, func() { s.UploadPart(b, u.key, u.id, pn, body) })
			case x < 58:
				var ns []int
				for n := range u.etags {
					if rng.Intn(4) > 0 {
						ns = append(ns, n)
					}
				}
				sort.Ints(ns)
				var parts []CPart
				for _, n := range ns {
					parts = append(parts, CPart{n, u.etags[n]})
				}
				if len(parts) == 0 {
					parts = []CPart{{1, "\"00000000000000000000000000000000\""}}
				}
				runs = append(runs, func() { s.Complete(b, u.key, u.id, parts) })
			case x < 68:
				runs = append(runs, func() { s.Abort(b, u.key, u.id) })
			case x < 84:
				runs = append(runs, func() { s.ListParts(b, u.key, u.id, -1, -1) })
			default:
				k := u.key
				runs = append(runs, func() { s.Get(b, k, "") })
			}
		}
		s.startCapture()
		var wg sync.WaitGroup
		start := make(chan struct{})
		for _, f := range runs {
			wg.Add(1)
			go func(f func()) { defer wg.Done(); <-start; f() }(f)
		}
		close(start)
		done := make(chan struct{})
		go func() { wg.Wait(); close(done) }()
		if !waitOr(done, 20*time.Second) {
			emit("c07", "HANG", hs("a round of concurrent multipart requests did not complete (deadlock?)"))
			return
		}
		emit("c07", "RB")
		s.flushCapture()
		emit("c07", "RP")
		for _, k := range keys {
			s.Get(b, k, "")
		}
		var live []*mpUpload
		for _, u := range ups {
			if refresh(u) {
				live = append(live, u)
			}
		}
		ups = live
		emit("c07", "RE")
		nontrivial(fmt.Sprint(kind, "mp", round))
	}
	s.end()
}

// c07VersionStress: many simultaneous versioned PUTs of one key and of several keys (memory
// backend); every acknowledged upload must have got a version id of its own under which exactly
// its bytes are served
func c07VersionStress(rng *Rng, clients, perClient int) {
	s := newSess("c07", "mem", SessOpts{})
	emit("c07", "NOMODEL")
	b := singleBucketName
	s.MkBucket(b)
	s.SetVersioning(b, true)
	type ack struct {
		key, vid string
		body     []byte
	}
	acks := make([][]ack, clients)
	var wg sync.WaitGroup
	start := make(chan struct{})
	for c := 0; c < clients; c++ {
		wg.Add(1)
		go func(c int) {
			defer wg.Done()
			<-start
			for i := 0; i < perClient; i++ {
				key := "hot"
				if i%3 == 2 {
					key = fmt.Sprintf("k%d", c%3)
				}
				body := []byte(fmt.Sprintf("client-%d-upload-%d", c, i))
				r := do(s.h, Req{Method: "PUT", Path: "/" + b + "/" + key, Body: body})
				if r.Status == 200 {
					acks[c] = append(acks[c], ack{key, r.Header.Get("x-amz-version-id"), body})
				}
			}
		}(c)
	}
	// readers of every kind run against the storm: listings, version listings, reads, bucket
	// metadata; they must all be answered (a reader that re-enters a lock deadlocks with a writer)
	stop := make(chan struct{})
	var rwg sync.WaitGroup
	for _, path := range []string{"/" + b + "?versions", "/" + b, "/" + b + "/hot", "/" + b + "?versioning", "/", "/" + b + "?uploads", "/" + b + "?versions&prefix=k&max-keys=2"} {
		rwg.Add(1)
		go func(path string) {
			defer rwg.Done()
			<-start
			for {
				select {
				case <-stop:
					return
				default:
				}
				r := do(s.h, Req{Method: "GET", Path: path})
				if r.Panic != "" || r.Status >= 500 {
					emit("c07", "BAD", hs(fmt.Sprintf("GET %s during simultaneous versioned PUTs answers %d %s", path, r.Status, r.Panic)))
					return
				}
			}
		}(path)
	}
	close(start)
	done := make(chan struct{})
	go func() { wg.Wait(); close(stop); rwg.Wait(); close(done) }()
	if !waitOr(done, 30*time.Second) {
		emit("c07", "HANG", hs("simultaneous versioned PUTs and listings did not complete (deadlock)"))
		return
	}
	seen := map[string]string{}
	bad := 0
	for c := range acks {
		for _, a := range acks[c] {
			if a.vid == "" {
				emit("c07", "BAD", hs("an acknowledged versioned PUT carries no version id"))
				bad++
				continue
			}
			if prev, dup := seen[a.vid]; dup {
				emit("c07", "BAD", hs(fmt.Sprintf("version id %s was handed to two acknowledged uploads (%s and %s)", a.vid, prev, string(a.body))))
				bad++
			}
			seen[a.vid] = string(a.body)
		}
	}
	for c := range acks {
		for _, a := range acks[c] {
			if a.vid == "" {
				continue
			}
			r := do(s.h, Req{Method: "GET", Path: "/" + b + "/" + a.key + "?versionId=" + queryEscape(a.vid)})
			if r.Status != 200 || string(r.Body) != string(a.body) {
				emit("c07", "BAD", hs(fmt.Sprintf("GET %s?versionId=%s answers %d %q, the upload acknowledged with that id was %q", a.key, a.vid, r.Status, truncate(r.Body, 60), string(a.body))))
				bad++
			}
			if bad > 5 {
				break
			}
		}
	}
	stat("version-stress-acknowledged-puts")
	nontrivial(fmt.Sprint("vstress", clients, perClient))
	emit("c07", "GOOD", hs(fmt.Sprintf("%d simultaneous versioned uploads: ids distinct, each id serves its own bytes", len(seen))))
	s.end()
}

// mpSlowPart: a part upload whose body arrives slowly (gated reader) —
// (a) must not hold up other multipart requests (on another upload, another key, listings);
// (b) when it re-uploads part 1 while a complete of the same upload (listing part 1 with the ETag of its
//
//	previous content) runs to completion, it cannot also be acknowledged: either the complete is
//	refused for a stale ETag, or the part upload finds the upload gone.
//
// Verdicts are computed here (they need no model state).
func mpSlowPart(prop, kind string) {
	s := newSess(prop, kind, SessOpts{})
	emit(prop, "NOMODEL")
	b := singleBucketName
	if !isSingle(kind) {
		s.MkBucket(b)
	}
	verdict := func(ok bool, what string) {
		if ok {
			emit(prop, "GOOD", hs(what))
		} else {
			emit(prop, "BAD", hs(what))
		}
	}
	partPath := func(k, id string, pn int) string {
		return "/" + b + "/" + k + "?uploadId=" + queryEscape(id) + "&partNumber=" + strconv.Itoa(pn)
	}
	// (a)
	{
		u1 := s.Initiate(b, "slow", nil)
		u2 := s.Initiate(b, "other", nil)
		body := []byte("a part whose bytes take their time")
		gr := &gatedReader{data: append([]byte{}, body...), entered: make(chan struct{}), release: make(chan struct{})}
		done := make(chan Resp, 1)
		go func() {
			done <- do(s.h, Req{Method: "PUT", Path: partPath("slow", u1, 1), Reader: gr, Header: [][2]string{{"Content-Length", strconv.Itoa(len(body))}}})
		}()
		entered := waitOr(gr.entered, 5*time.Second)
		_, h1 := doDeadline(s.h, Req{Method: "PUT", Path: partPath("other", u2, 1), Body: []byte("quick part")}, 5*time.Second)
		_, h2 := doDeadline(s.h, Req{Method: "POST", Path: "/" + b + "/third?uploads", Body: []byte{}}, 5*time.Second)
		_, h3 := doDeadline(s.h, Req{Method: "GET", Path: "/" + b + "?uploads"}, 5*time.Second)
		_, h4 := doDeadline(s.h, Req{Method: "GET", Path: "/" + b + "/other?uploadId=" + queryEscape(u2)}, 5*time.Second)
		close(gr.release)
		var r Resp
		select {
		case r = <-done:
		case <-time.After(5 * time.Second):
			entered = false
		}
		verdict(entered && !h1 && !h2 && !h3 && !h4, fmt.Sprintf("%s: while the body of one part upload is in flight, part uploads of other uploads, initiate, list-uploads and list-parts are served (blocked: part=%v initiate=%v list-uploads=%v list-parts=%v)", kind, h1, h2, h3, h4))
		verdict(r.Status == 200, "the slow part upload itself completes")
		nontrivial(kind + "|slow-part-does-not-block")
	}
	// (b)
	{
		u := s.Initiate(b, "race", nil)
		eA := s.UploadPart(b, "race", u, 1, []byte("first content of part one"))
		bodyB := []byte("second content of part one")
		gr := &gatedReader{data: append([]byte{}, bodyB...), entered: make(chan struct{}), release: make(chan struct{})}
		done := make(chan Resp, 1)
		go func() {
			done <- do(s.h, Req{Method: "PUT", Path: partPath("race", u, 1), Reader: gr, Header: [][2]string{{"Content-Length", strconv.Itoa(len(bodyB))}}})
		}()
		if waitOr(gr.entered, 5*time.Second) {
			xmlb := "<CompleteMultipartUpload><Part><PartNumber>1</PartNumber><ETag>" + xmlEsc(eA) + "</ETag></Part></CompleteMultipartUpload>"
			rc, hung := doDeadline(s.h, Req{Method: "POST", Path: "/" + b + "/race?uploadId=" + queryEscape(u), Body: []byte(xmlb)}, 5*time.Second)
			close(gr.release)
			var rp Resp
			select {
			case rp = <-done:
			case <-time.After(5 * time.Second):
				hung = true
			}
			if hung {
				// the complete waited for the slow part (also a consistent behaviour) or something is stuck
				verdict(rp.Status != 0, kind+": a complete overlapping a slow re-upload of one of its parts does not finish")
			} else {
				verdict(!(rc.Status == 200 && rp.Status == 200), fmt.Sprintf("%s: a complete naming part 1 by the ETag of its first content was acknowledged (%d) and so was the overlapping re-upload of part 1 (%d): no order of the two explains both", kind, rc.Status, rp.Status))
				g := do(s.h, Req{Method: "GET", Path: "/" + b + "/race"})
				if rc.Status == 200 {
					verdict(g.Status == 200 && string(g.Body) == "first content of part one", "the completed object holds the content the complete named")
				}
			}
		}
		nontrivial(kind + "|slow-part-vs-complete")
	}
	s.end()
}

// c07CopyStorm: many clients copy one object to keys of their own while others read it. Nothing
// writes the source, so every read of it returns exactly what was uploaded (body and every stored
// header, the ACL included) however the copies interleave, and every destination is the source
// without its ACL. (Copies that overlap a write of their source or destination are D30; these do not.)
func c07CopyStorm(kind string, clients, perClient int) {
	s := newSess("c07", kind, SessOpts{})
	emit("c07", "NOMODEL")
	b := singleBucketName
	if !isSingle(kind) {
		s.MkBucket(b)
	}
	body := []byte("the source of the copy storm")
	hdr := [][2]string{{"X-Amz-Acl", "public-read"}, {"X-Amz-Meta-Color", "blue"}, {"Content-Type", "text/x-storm"}, {"X-Amz-Storage-Class", "STANDARD"}}
	if r := do(s.h, Req{Method: "PUT", Path: "/" + b + "/storm/src", Body: body, Header: hdr}); r.Status != 200 {
		emit("c07", "BAD", hs(fmt.Sprintf("%s: upload of the copy source answers %d", kind, r.Status)))
		s.end()
		return
	}
	srcHead := do(s.h, Req{Method: "HEAD", Path: "/" + b + "/storm/src"})
	want := metaField(srcHead.Header)
	srcETag := strings.Trim(srcHead.Header.Get("ETag"), "\"")
	var mu sync.Mutex
	var bad []string
	note := func(f string, a ...interface{}) {
		mu.Lock()
		if len(bad) < 5 {
			bad = append(bad, fmt.Sprintf(f, a...))
		}
		mu.Unlock()
	}
	var wg sync.WaitGroup
	start := make(chan struct{})
	for c := 0; c < clients; c++ {
		wg.Add(1)
		go func(c int) {
			defer wg.Done()
			<-start
			for i := 0; i < perClient; i++ {
				switch (c + i) % 4 {
				case 3:
					// a copy onto a key that other clients are overwriting: whatever the order, the copy's
					// answer names the entity of its source (which nothing writes)
					dst := fmt.Sprintf("storm/contended-%d", i%3)
					if c%2 == 0 {
						r := do(s.h, Req{Method: "PUT", Path: "/" + b + "/" + dst, Body: []byte{}, Header: [][2]string{{"X-Amz-Copy-Source", "/" + b + "/storm/src"}}})
						if et := xmlAll(string(r.Body), "ETag"); r.Status != 200 || len(et) != 1 || strings.Trim(et[0], "\"") != srcETag {
							note("copy onto the contended key %s answers %d with ETag %v; the source's is %s", dst, r.Status, et, srcETag)
						}
					} else {
						do(s.h, Req{Method: "PUT", Path: "/" + b + "/" + dst, Body: []byte(fmt.Sprintf("other-content-%d-%d", c, i))})
					}
				case 0:
					dst := fmt.Sprintf("storm/dst-%d-%d", c, i)
					r := do(s.h, Req{Method: "PUT", Path: "/" + b + "/" + dst, Body: []byte{}, Header: [][2]string{{"X-Amz-Copy-Source", "/" + b + "/storm/src"}}})
					if r.Status != 200 || r.Panic != "" {
						note("copy to %s answers %d %s", dst, r.Status, r.Panic)
						continue
					}
					g := do(s.h, Req{Method: "GET", Path: "/" + b + "/" + dst})
					if g.Status != 200 || string(g.Body) != string(body) || g.Header.Get("X-Amz-Meta-Color") != "blue" || g.Header.Get("X-Amz-Acl") != "" {
						note("the copy %s reads %d %q color=%q acl=%q", dst, g.Status, truncate(g.Body, 40), g.Header.Get("X-Amz-Meta-Color"), g.Header.Get("X-Amz-Acl"))
					}
				case 1:
					g := do(s.h, Req{Method: "GET", Path: "/" + b + "/storm/src"})
					if g.Status != 200 || g.Panic != "" || string(g.Body) != string(body) || metaField(g.Header) != want {
						note("GET of the source while it is being copied answers %d %s %q with headers %s (uploaded: %s)", g.Status, g.Panic, truncate(g.Body, 40), metaField(g.Header), want)
					}
				default:
					h := do(s.h, Req{Method: "HEAD", Path: "/" + b + "/storm/src"})
					if h.Status != 200 || h.Panic != "" || metaField(h.Header) != want {
						note("HEAD of the source while it is being copied answers %d %s with headers %s (uploaded: %s)", h.Status, h.Panic, metaField(h.Header), want)
					}
				}
			}
		}(c)
	}
	close(start)
	doneCh := make(chan struct{})
	go func() { wg.Wait(); close(doneCh) }()
	if !waitOr(doneCh, 60*time.Second) {
		emit("c07", "HANG", hs("the copy storm did not complete (deadlock?)"))
		return
	}
	g := do(s.h, Req{Method: "GET", Path: "/" + b + "/storm/src"})
	if g.Status != 200 || string(g.Body) != string(body) || metaField(g.Header) != want {
		note("after the storm the source reads %d %q with headers %s (uploaded: %s)", g.Status, truncate(g.Body, 40), metaField(g.Header), want)
	}
	if len(bad) > 0 {
		emit("c07", "BAD", hs(fmt.Sprintf("%s: %d clients copying one object to keys of their own while others read it: %s", kind, clients, strings.Join(bad, "; "))))
	} else {
		emit("c07", "GOOD", hs(fmt.Sprintf("%s: %d clients x %d copies / reads of one source: the source stays as uploaded, every copy is the source without its ACL", kind, clients, perClient)))
	}
	nontrivial(kind + "|copy-storm")
	s.end()
}

// firstUseBackend holds every request that finds its bucket absent until all of them have found it
// absent: the interleaving in which simultaneous first requests for a bucket all reach the
// create-on-first-use step of the auto-bucket option
type firstUseBackend struct {
	gofakes3.Backend
	mu      sync.Mutex
	waiting int
	want    int
	release chan struct{}
}

func (b *firstUseBackend) BucketExists(name string) (bool, error) {
	ok, err := b.Backend.BucketExists(name)
	if err != nil || ok {
		return ok, err
	}
	b.mu.Lock()
	b.waiting++
	if b.waiting == b.want {
		close(b.release)
	}
	ch := b.release
	b.mu.Unlock()
	select {
	case <-ch:
	case <-time.After(2 * time.Second):
	}
	return ok, err
}

// c07AutoBucketFirstUse: with the auto-bucket option a bucket comes to exist with the first request
// that names it. Simultaneous first requests are all valid requests for a bucket that exists by the
// time any of them is answered: each is served (sequentially the first creates it, the others find it)
func c07AutoBucketFirstUse(kind string, clients int) {
	if isSingle(kind) {
		return
	}
	st := newStore(kind)
	defer st.Close()
	if st.Ext != nil {
		return
	}
	fb := &firstUseBackend{Backend: st.Backend, want: clients, release: make(chan struct{})}
	h := newServer(fb, gofakes3.WithAutoBucket(true))
	emit("c07", "H", kind, "auto=1,versioned=0,pages=0,failpage=0", "-")
	emit("c07", "NOMODEL")
	var wg sync.WaitGroup
	start := make(chan struct{})
	res := make([]Resp, clients)
	for c := 0; c < clients; c++ {
		wg.Add(1)
		go func(c int) {
			defer wg.Done()
			<-start
			res[c] = do(h, Req{Method: "PUT", Path: fmt.Sprintf("/first-use/k%d", c), Body: []byte(fmt.Sprintf("body-%d", c))})
		}(c)
	}
	close(start)
	doneCh := make(chan struct{})
	go func() { wg.Wait(); close(doneCh) }()
	if !waitOr(doneCh, 30*time.Second) {
		emit("c07", "HANG", hs("simultaneous first requests for an auto-created bucket did not complete"))
		emit("c07", "E")
		return
	}
	var bad []string
	for c, r := range res {
		if r.Status != 200 || r.Panic != "" {
			bad = append(bad, fmt.Sprintf("PUT k%d answers %d %s %s", c, r.Status, errCode(r.Body), r.Panic))
			continue
		}
		if g := do(h, Req{Method: "GET", Path: fmt.Sprintf("/first-use/k%d", c)}); g.Status != 200 || string(g.Body) != fmt.Sprintf("body-%d", c) {
			bad = append(bad, fmt.Sprintf("GET k%d answers %d %q after its PUT was acknowledged", c, g.Status, truncate(g.Body, 30)))
		}
	}
	if len(bad) > 0 {
		emit("c07", "BAD", hs(fmt.Sprintf("%s, auto-bucket: %d simultaneous first requests for a bucket: %s", kind, clients, strings.Join(bad, "; "))))
	} else {
		emit("c07", "GOOD", hs(fmt.Sprintf("%s, auto-bucket: %d simultaneous first requests for a bucket are all served", kind, clients)))
	}
	nontrivial(kind + "|auto-bucket-first-use")
	emit("c07", "E")
}

// c07MetaStorm: simultaneous PUTs of one key, each with a metadata header of its own. A PUT keeps
// the metadata of the object it replaces for every header it does not send itself (MergeMetadata),
// so in every sequential order the object ends up carrying the headers of all of them. (The merge
// reads the previous object before the backend lock is taken: known finding D35 when a header is lost.)
func c07MetaStorm(kind string, rounds, clients int) {
	s := newSess("c07", kind, SessOpts{})
	emit("c07", "NOMODEL")
	b := singleBucketName
	if !isSingle(kind) {
		s.MkBucket(b)
	}
	lost := 0
	example := ""
	for round := 0; round < rounds; round++ {
		key := fmt.Sprintf("meta-storm/%d", round)
		var wg sync.WaitGroup
		start := make(chan struct{})
		res := make([]Resp, clients)
		for c := 0; c < clients; c++ {
			wg.Add(1)
			go func(c int) {
				defer wg.Done()
				<-start
				res[c] = do(s.h, Req{Method: "PUT", Path: "/" + b + "/" + key, Body: []byte(fmt.Sprintf("body-%d", c)), Header: [][2]string{{fmt.Sprintf("X-Amz-Meta-Client%d", c), "1"}}})
			}(c)
		}
		close(start)
		doneCh := make(chan struct{})
		go func() { wg.Wait(); close(doneCh) }()
		if !waitOr(doneCh, 30*time.Second) {
			emit("c07", "HANG", hs("simultaneous PUTs of one key with metadata did not complete"))
			return
		}
		hd := do(s.h, Req{Method: "HEAD", Path: "/" + b + "/" + key})
		var missing []string
		for c := 0; c < clients; c++ {
			if res[c].Status == 200 && hd.Header.Get(fmt.Sprintf("X-Amz-Meta-Client%d", c)) == "" {
				missing = append(missing, fmt.Sprintf("x-amz-meta-client%d", c))
			}
		}
		if len(missing) > 0 {
			lost++
			if example == "" {
				example = fmt.Sprintf("round %d: all %d PUTs of %q acknowledged, the object carries %s and lacks %s", round, clients, key, metaField(hd.Header), strings.Join(missing, ", "))
			}
		}
	}
	if lost > 0 {
		emit("c07", "BAD", hs(fmt.Sprintf("S:metadata-of-an-acknowledged-put-lost %s: %d simultaneous PUTs of one key, each with a metadata header of its own: in %d of %d rounds the object does not carry the headers of all of them, as it does in every sequential order (%s)", kind, clients, lost, rounds, example)))
	} else {
		emit("c07", "GOOD", hs(fmt.Sprintf("%s: %d rounds of %d simultaneous PUTs of one key with metadata headers of their own: the object carries all of them", kind, rounds, clients)))
	}
	nontrivial(kind + "|meta-storm")
	s.end()
}

// c07MultiDeleteStorm: clients multi-delete and re-create interleaved sets of keys while others read
// and list. A key named in an acknowledged multi-delete (and not written since) is gone; reads and
// listings are answered throughout. (The race detector sees the rest in the -race run.)
func c07MultiDeleteStorm(kind string, versioned bool, clients, rounds int) {
	s := newSess("c07", kind, SessOpts{})
	emit("c07", "NOMODEL")
	b := singleBucketName
	if !isSingle(kind) {
		s.MkBucket(b)
	}
	if versioned {
		s.SetVersioning(b, true)
	}
	var mu sync.Mutex
	var bad []string
	note := func(f string, a ...interface{}) {
		mu.Lock()
		if len(bad) < 5 {
			bad = append(bad, fmt.Sprintf(f, a...))
		}
		mu.Unlock()
	}
	for round := 0; round < rounds; round++ {
		// every client owns 4 keys of this round; all exist before the round starts
		for c := 0; c < clients; c++ {
			for i := 0; i < 4; i++ {
				do(s.h, Req{Method: "PUT", Path: fmt.Sprintf("/%s/md/r%d-c%d-k%d", b, round, c, i), Body: []byte("x")})
			}
		}
		var wg sync.WaitGroup
		start := make(chan struct{})
		for c := 0; c < clients; c++ {
			wg.Add(1)
			go func(c int) {
				defer wg.Done()
				<-start
				if c%4 == 3 {
					// a reader / lister
					for i := 0; i < 4; i++ {
						g := do(s.h, Req{Method: "GET", Path: fmt.Sprintf("/%s/md/r%d-c%d-k%d", b, round, (c+1)%clients, i)})
						l := do(s.h, Req{Method: "GET", Path: "/" + b + "?prefix=md%2F"})
						if g.Panic != "" || l.Panic != "" || l.Status != 200 || (g.Status != 200 && g.Status != 404) {
							note("round %d: a read during the multi-deletes answers %d %s, a listing %d %s", round, g.Status, g.Panic, l.Status, l.Panic)
						}
					}
					return
				}
				var sb strings.Builder
				sb.WriteString("<Delete>")
				for i := 0; i < 4; i++ {
					sb.WriteString(fmt.Sprintf("<Object><Key>md/r%d-c%d-k%d</Key></Object>", round, c, i))
				}
				sb.WriteString("</Delete>")
				r := do(s.h, Req{Method: "POST", Path: "/" + b + "?delete", Body: []byte(sb.String())})
				if r.Status != 200 || r.Panic != "" || len(xmlBlocks(string(r.Body), "Deleted")) != 4 {
					note("round %d: multi-delete of client %d answers %d %s with %d <Deleted> entries", round, c, r.Status, r.Panic, len(xmlBlocks(string(r.Body), "Deleted")))
				}
			}(c)
		}
		close(start)
		doneCh := make(chan struct{})
		go func() { wg.Wait(); close(doneCh) }()
		if !waitOr(doneCh, 30*time.Second) {
			emit("c07", "HANG", hs("simultaneous multi-object deletes did not complete"))
			return
		}
		for c := 0; c < clients; c++ {
			if c%4 == 3 {
				continue
			}
			for i := 0; i < 4; i++ {
				k := fmt.Sprintf("md/r%d-c%d-k%d", round, c, i)
				if g := do(s.h, Req{Method: "GET", Path: "/" + b + "/" + k}); g.Status != 404 || g.Panic != "" {
					note("round %d: %s was reported deleted by an acknowledged multi-delete and GET answers %d %s", round, k, g.Status, g.Panic)
				}
			}
		}
		if l := do(s.h, Req{Method: "GET", Path: "/" + b + "?prefix=" + queryEscape(fmt.Sprintf("md/r%d-", round))}); l.Status != 200 || l.Panic != "" || len(xmlContentsKeys(string(l.Body))) != 4*(clients/4) {
			note("round %d: after the multi-deletes the listing answers %d %s with keys %q (the readers' %d keys are what is left)", round, l.Status, l.Panic, xmlContentsKeys(string(l.Body)), 4*(clients/4))
		}
	}
	if len(bad) > 0 {
		emit("c07", "BAD", hs(fmt.Sprintf("%s (versioned=%v): %d clients multi-deleting keys of their own while others read and list: %s", kind, versioned, clients, strings.Join(bad, "; "))))
	} else {
		emit("c07", "GOOD", hs(fmt.Sprintf("%s (versioned=%v): %d rounds of %d clients multi-deleting keys of their own while others read and list: every acknowledged delete took effect", kind, versioned, rounds, clients)))
	}
	nontrivial(fmt.Sprint(kind, versioned, "|multi-delete-storm"))
	s.end()
}
