package main

import (
	"io"

	"github.com/johannesboyne/gofakes3"
)

// recBackend records which bucket / key the handlers address in the backend.
type recBackend struct {
	inner   gofakes3.Backend
	buckets []string
	keys    []string

	// when set, CopyObject runs the library's generic helper against this wrapper, and the
	// PutObject it issues waits for gateRelease after signalling gateEntered
	gateCopy    bool
	inCopy      bool
	gateEntered chan struct{}
	gateRelease chan struct{}
}

func (r *recBackend) reset()          { r.buckets, r.keys = nil, nil }
func (r *recBackend) b(name string)   { r.buckets = append(r.buckets, name) }
func (r *recBackend) k(b, key string) { r.buckets = append(r.buckets, b); r.keys = append(r.keys, key) }

func (r *recBackend) ListBuckets() ([]gofakes3.BucketInfo, error) { return r.inner.ListBuckets() }
func (r *recBackend) ListBucket(name string, prefix *gofakes3.Prefix, page gofakes3.ListBucketPage) (*gofakes3.ObjectList, error) {
	r.b(name)
	return r.inner.ListBucket(name, prefix, page)
}
func (r *recBackend) CreateBucket(name string) error { r.b(name); return r.inner.CreateBucket(name) }
func (r *recBackend) BucketExists(name string) (bool, error) {
	r.b(name)
	return r.inner.BucketExists(name)
}
func (r *recBackend) DeleteBucket(name string) error { r.b(name); return r.inner.DeleteBucket(name) }
func (r *recBackend) ForceDeleteBucket(name string) error {
	r.b(name)
	return r.inner.ForceDeleteBucket(name)
}
func (r *recBackend) GetObject(b, k string, rr *gofakes3.ObjectRangeRequest) (*gofakes3.Object, error) {
	r.k(b, k)
	return r.inner.GetObject(b, k, rr)
}
func (r *recBackend) HeadObject(b, k string) (*gofakes3.Object, error) {
	r.k(b, k)
	return r.inner.HeadObject(b, k)
}
func (r *recBackend) DeleteObject(b, k string) (gofakes3.ObjectDeleteResult, error) {
	r.k(b, k)
	return r.inner.DeleteObject(b, k)
}
func (r *recBackend) PutObject(b, k string, meta map[string]string, input io.Reader, size int64) (gofakes3.PutObjectResult, error) {
	r.k(b, k)
	if r.gateCopy && r.inCopy {
		close(r.gateEntered)
		<-r.gateRelease
	}
	return r.inner.PutObject(b, k, meta, input, size)
}
func (r *recBackend) DeleteMulti(b string, objects ...string) (gofakes3.MultiDeleteResult, error) {
	r.b(b)
	return r.inner.DeleteMulti(b, objects...)
}
func (r *recBackend) CopyObject(sb, sk, db, dk string, meta map[string]string) (gofakes3.CopyObjectResult, error) {
	r.k(db, dk)
	if r.gateCopy {
		// exactly what the bundled backends do: the generic helper = GetObject then PutObject
		r.inCopy = true
		defer func() { r.inCopy = false }()
		return gofakes3.CopyObject(r, sb, sk, db, dk, meta)
	}
	return r.inner.CopyObject(sb, sk, db, dk, meta)
}

// versioned part (only used when the inner backend is versioned)
type recVersioned struct {
	*recBackend
	v gofakes3.VersionedBackend
}

func (r *recVersioned) VersioningConfiguration(b string) (gofakes3.VersioningConfiguration, error) {
	r.b(b)
	return r.v.VersioningConfiguration(b)
}
func (r *recVersioned) SetVersioningConfiguration(b string, v gofakes3.VersioningConfiguration) error {
	r.b(b)
	return r.v.SetVersioningConfiguration(b, v)
}
func (r *recVersioned) GetObjectVersion(b, k string, id gofakes3.VersionID, rr *gofakes3.ObjectRangeRequest) (*gofakes3.Object, error) {
	r.k(b, k)
	return r.v.GetObjectVersion(b, k, id, rr)
}
func (r *recVersioned) HeadObjectVersion(b, k string, id gofakes3.VersionID) (*gofakes3.Object, error) {
	r.k(b, k)
	return r.v.HeadObjectVersion(b, k, id)
}
func (r *recVersioned) DeleteObjectVersion(b, k string, id gofakes3.VersionID) (gofakes3.ObjectDeleteResult, error) {
	r.k(b, k)
	return r.v.DeleteObjectVersion(b, k, id)
}
func (r *recVersioned) DeleteMultiVersions(b string, objects ...gofakes3.ObjectID) (gofakes3.MultiDeleteResult, error) {
	r.b(b)
	return r.v.DeleteMultiVersions(b, objects...)
}
func (r *recVersioned) ListBucketVersions(b string, prefix *gofakes3.Prefix, page *gofakes3.ListBucketVersionsPage) (*gofakes3.ListBucketVersionsResult, error) {
	r.b(b)
	return r.v.ListBucketVersions(b, prefix, page)
}
