package main

import (
	"bytes"
	"crypto/md5"
	"fmt"
	"mime/multipart"
	"net/http"
	"os"
	"strconv"
	"strings"
	"time"

	"github.com/johannesboyne/gofakes3"
)

func init() { runners["c09"] = runC09 }

var c09Hangs int

// doDeadline runs a request with a watchdog: hung = no answer within the deadline
func doDeadline(h http.Handler, rq Req, d time.Duration) (Resp, bool) {
	ch := make(chan Resp, 1)
	go func() { ch <- do(h, rq) }()
	select {
	case r := <-ch:
		return r, false
	case <-time.After(d):
		return Resp{}, true
	}
}

func isErrorDoc(body []byte) bool {
	s := strings.TrimSpace(string(body))
	s = strings.TrimPrefix(s, `<?xml version="1.0" encoding="UTF-8"?>`)
	s = strings.TrimSpace(s)
	return strings.HasPrefix(s, "<Error>") && strings.HasSuffix(s, "</Error>") && strings.Contains(s, "<Code>") && strings.Contains(s, "</Code>")
}

type fuzzCtx struct {
	rng     *Rng
	buckets []string
	keys    []string
	vids    []string
	uploads []string
}

func (f *fuzzCtx) pick(xs ...string) string { return xs[f.rng.Intn(len(xs))] }

func (f *fuzzCtx) num() string {
	return f.pick("0", "1", "2", "3", "7", "1000", "1001", "10000", "10001", "-1", "-9223372036854775808", "9223372036854775807",
		"9223372036854775808", "99999999999999999999999", "abc", "", " 1", "1.5", "0x10", "+2", "1e3", "٣")
}

func (f *fuzzCtx) str() string {
	return f.pick("", "a", "k", "d/", "d/e", "/", "//", "..", "../x", "%", "%zz", "\x00", "é", "k with space", strings.Repeat("x", 1025), strings.Repeat("\xe4\xb8\x96", 70), strings.Repeat("y", 199)+"\xc3\xa9", "zzzz", "k\n", "a&b=c", "?", "#frag")
}

func (f *fuzzCtx) request() (Req, string) {
	rng := f.rng
	method := f.pick("GET", "GET", "GET", "PUT", "PUT", "POST", "POST", "DELETE", "DELETE", "HEAD", "HEAD", "PATCH", "OPTIONS", "TRACE", "get", "LIST")
	b := f.pick(append(append([]string{}, f.buckets...), "nosuch", "", ".", "..", "_meta", "A_b", "-", "aa", strings.Repeat("b", 64))...)
	k := ""
	if rng.Intn(10) < 7 {
		k = f.pick(append(append([]string{}, f.keys...), f.str(), f.str())...)
	}
	path := "/" + pathEscape(b)
	if k != "" {
		path += "/" + pathEscape(k)
	}
	if rng.Intn(25) == 0 {
		path = f.pick("/", "", "//", "/%", "/%2", "/bkt/%ff%fe", "*", "/bkt//", "///bkt///k///")
	}
	var q []string
	addq := func(k, v string, withVal bool) {
		if withVal {
			q = append(q, k+"="+queryEscape(v))
		} else {
			q = append(q, k)
		}
	}
	vid := func() string {
		if len(f.vids) > 0 && rng.Intn(3) > 0 {
			return f.vids[rng.Intn(len(f.vids))]
		}
		return f.pick("null", "", "3/bogus", "x", strings.Repeat("v", 300))
	}
	upid := func() string {
		if len(f.uploads) > 0 && rng.Intn(3) > 0 {
			return f.uploads[rng.Intn(len(f.uploads))]
		}
		return f.pick("0", "999", "abc", "", "-1")
	}
	nq := rng.Intn(4)
	for i := 0; i < nq; i++ {
		switch rng.Intn(26) {
		case 0:
			addq("uploads", "", false)
		case 1:
			addq("uploadId", upid(), true)
		case 2:
			addq("partNumber", f.num(), true)
		case 3:
			addq("versioning", "", false)
		case 4:
			addq("versions", "", false)
		case 5:
			addq("versionId", vid(), true)
		case 6:
			addq("delete", "", false)
		case 7:
			addq("location", "", false)
		case 8:
			addq("list-type", f.pick("2", "1", "x", ""), true)
		case 9:
			addq("prefix", f.str(), true)
		case 10:
			addq("delimiter", f.pick("/", "", "b", "//", "é", "\x00"), true)
		case 11:
			addq("marker", f.str(), true)
		case 12:
			addq("max-keys", f.num(), true)
		case 13:
			addq("key-marker", f.str(), true)
		case 14:
			addq("version-id-marker", vid(), true)
		case 15:
			addq("upload-id-marker", upid(), true)
		case 16:
			addq("part-number-marker", f.num(), true)
		case 17:
			addq("max-parts", f.num(), true)
		case 18:
			addq("max-uploads", f.num(), true)
		case 19:
			addq("continuation-token", f.pick("", "YQ==", "!!!", "a", "YWJj", "%%%"), true)
		case 20:
			addq("start-after", f.str(), true)
		case 21:
			addq("fetch-owner", "true", rng.Bool())
		case 22:
			addq("acl", "", false)
		case 23:
			addq("tagging", "", false)
		case 24:
			addq(f.str(), f.str(), true)
		case 25:
			addq("versionId", vid(), true)
			addq("versionId", vid(), true)
		}
	}
	if len(q) > 0 && !strings.Contains(path, "?") {
		path += "?" + strings.Join(q, "&")
	}
	var hdr [][2]string
	var body []byte
	switch rng.Intn(12) {
	case 0:
		body = []byte("<Delete><Object><Key>" + xmlEsc(f.str()) + "</Key><VersionId>" + xmlEsc(vid()) + "</VersionId></Object><Quiet>true</Quiet></Delete>")
	case 1:
		body = []byte("<CompleteMultipartUpload><Part><PartNumber>" + f.num() + "</PartNumber><ETag>" + f.pick("\"x\"", "", "\"d41d8cd98f00b204e9800998ecf8427e\"") + "</ETag></Part></CompleteMultipartUpload>")
	case 2:
		body = []byte("<VersioningConfiguration><Status>" + f.pick("Enabled", "Suspended", "", "Bogus") + "</Status><MfaDelete>" + f.pick("Enabled", "Disabled", "") + "</MfaDelete></VersioningConfiguration>")
	case 3:
		body = []byte(f.pick("<", "<a", "<a></b>", "<?xml", "&&&", "<Delete><Object>", "<CompleteMultipartUpload><Part><PartNumber>1</PartNumber>", strings.Repeat("<a>", 2000), "\xff\xfe\x00"))
	case 4, 5:
		body = rng.Bytes(rng.Intn(64))
	case 6:
		var buf bytes.Buffer
		mw := multipart.NewWriter(&buf)
		if rng.Bool() {
			mw.WriteField("key", f.str())
		}
		if rng.Intn(3) > 0 {
			fw, _ := mw.CreateFormFile(f.pick("file", "file", "fil"), "f")
			fw.Write(rng.Bytes(rng.Intn(30)))
		}
		if rng.Intn(4) == 0 {
			fw, _ := mw.CreateFormFile("file", "g")
			fw.Write([]byte("second"))
		}
		mw.Close()
		body = buf.Bytes()
		ct := mw.FormDataContentType()
		if rng.Intn(5) == 0 {
			ct = "multipart/form-data; boundary=nope"
		}
		hdr = append(hdr, [2]string{"Content-Type", ct})
	case 7:
		body = encodeChunks(splitChunks(rng.Bytes(rng.Intn(40)), []int{7}))
		if rng.Bool() {
			body = body[:rng.Intn(len(body)+1)]
		}
		if rng.Intn(3) == 0 {
			// a chunk-size field the decoder has to survive: signed, huge, not hexadecimal, empty
			body = append([]byte(f.pick("-5", "-1", "+5", " 5", "ffffffffffffffff", "7fffffffffffffff", "-8000000000000000", "zz", "", "0x5", "5 ")+";chunk-signature="+strings.Repeat("0", 64)+"\r\nhello\r\n0;chunk-signature="+strings.Repeat("0", 64)+"\r\n\r\n"), body...)
		}
		hdr = append(hdr, [2]string{"X-Amz-Content-Sha256", "STREAMING-AWS4-HMAC-SHA256-PAYLOAD"},
			[2]string{"X-Amz-Decoded-Content-Length", f.pick("0", "5", "40", "-1", "abc", "", "9223372036854775807x", "1048576")})
	}
	nh := rng.Intn(3)
	for i := 0; i < nh; i++ {
		switch rng.Intn(10) {
		case 0:
			hdr = append(hdr, [2]string{"Range", f.pick("bytes=0-", "bytes=5-9223372036854775807", "bytes=-0", "bytes=a-b", "bytes=1-0", "bytes=0-0,1-1", "items=0-1", "bytes=--1", "bytes= ", "bytes=9223372036854775807-")})
		case 1:
			hdr = append(hdr, [2]string{"Content-MD5", f.pick("", "AAAA", "1B2M2Y8AsgTpgAmY7PhCfg==", "!!!", "1B2M2Y8AsgTpgAmY7PhCfg")})
		case 2:
			hdr = append(hdr, [2]string{"X-Amz-Copy-Source", f.pick("nobucket", "/", "", "a", "//", "/bkt", "bkt/k", "/bkt/k", "/bkt/k?versionId=x", "/bkt/%zz", "bkt/k%2Fx", "/nosuch/k", "/bkt/", strings.Repeat("s", 2000))})
		case 3:
			hdr = append(hdr, [2]string{"Content-Length", f.pick("0", "5", "-1", "abc", "", "1048576", " 3", "3 ")})
		case 4:
			hdr = append(hdr, [2]string{f.pick("If-None-Match", "If-None-Match", "If-Match", "If-Range"), f.pick("*", "\"x\"", "", "W/", "W/\"x\"", "W", "\"", "\"\"", ",", "W/*", "W/\"", "w/\"x\"", "\"5d41402abc4b2a76b9719d911017c592\"", "W/\"5d41402abc4b2a76b9719d911017c592\", \"y\"", " ", "W/ ")})
		case 5:
			hdr = append(hdr, [2]string{f.pick("If-Modified-Since", "If-Unmodified-Since"), f.pick("Mon, 02 Jan 2006 15:04:05 GMT", "yesterday", "", "Thu, 02 Jan 2020 03:04:05 GMT", "Thu, 02 Jan 2020 03:04:06 GMT", "Monday, 02-Jan-06 15:04:05 GMT", "0", "Thu, 32 Jan 2020 03:04:05 GMT")})
		case 6:
			hdr = append(hdr, [2]string{"x-minio-force-delete", f.pick("true", "false", "")})
		case 7:
			hdr = append(hdr, [2]string{"X-Amz-Meta-" + f.pick("a", "B", "é"), strings.Repeat("m", rng.Intn(3000))})
		case 8:
			hdr = append(hdr, [2]string{"X-Amz-Date", f.pick("20200102T030405Z", "garbage", "", "20200102T031905Z", "20200102T032006Z", "20200102T024804Z", "20190102T030405Z", "99999999T999999Z", "20200102T030405+0100", "00000000T000000Z")})
		case 9:
			hdr = append(hdr, [2]string{"Content-Type", f.pick("", "application/xml", "multipart/form-data", "multipart/form-data; boundary=")})
		}
	}
	hasCL := false
	for _, h := range hdr {
		if h[0] == "Content-Length" {
			hasCL = true
		}
	}
	rq := Req{Method: method, Path: path, Header: hdr, Body: body, NoCL: hasCL || rng.Intn(15) == 0}
	if body == nil && (method == "PUT" || method == "POST") && rng.Bool() {
		rq.Body = []byte{}
	}
	if rng.Intn(20) == 0 {
		rq.Host = f.pick("bkt.s3.example.com", ".", "", "x..y", "bkt.localhost:9000")
	}
	desc := method + " " + path
	return rq, desc
}

func runC09(tier string, seed uint64) {
	rng := NewRng(seed)
	// no request creates an object that no request can address (the empty key): the bucket must stay
	// emptiable and deletable
	for _, kind := range allKinds {
		if isSingle(kind) {
			continue
		}
		s := newSess("c09", kind, SessOpts{})
		emit("c09", "NOMODEL")
		s.MkBucket("bke")
		if id := s.Initiate("bke", "", nil); id != "" {
			et := s.UploadPart("bke", "", id, 1, []byte("x"))
			s.Complete("bke", "", id, []CPart{{1, et}})
		}
		s.PostForm("bke", "", []byte("form upload without a key"), nil)
		lr := s.List(ListReq{Bucket: "bke", MaxKeys: -1})
		for _, k := range lr.Keys {
			if k != "" {
				s.Delete("bke", k)
			}
		}
		r := s.RmBucket("bke")
		msg := fmt.Sprintf("%s: after an initiate / complete and a form upload with an empty key, the bucket lists %q and DELETE bucket answers %d", kind, lr.Keys, r.Status)
		if r.Status == 204 {
			emit("c09", "GOOD", hs(msg))
		} else {
			emit("c09", "BAD", hs(msg))
		}
		nontrivial(kind + "|empty-key")
		s.end()
	}
	// resources: a long run of ordinary requests must not use up file descriptors
	for _, kind := range []string{"fsdir", "sfsdir", "bolt"} {
		s := newSess("c09", kind, SessOpts{})
		emit("c09", "NOMODEL")
		b := singleBucketName
		if !isSingle(kind) {
			s.MkBucket(b)
		}
		count := func() int {
			es, _ := os.ReadDir("/proc/self/fd")
			return len(es)
		}
		s.Put(b, "leak/k", []byte("x"), []KV{{"X-Amz-Meta-A", "1"}})
		before := count()
		for i := 0; i < 120; i++ {
			do(s.h, Req{Method: "PUT", Path: "/" + b + "/leak/k", Body: []byte("overwrite"), Header: [][2]string{{"X-Amz-Meta-A", strconv.Itoa(i)}}})
			do(s.h, Req{Method: "GET", Path: "/" + b + "/leak/k"})
			do(s.h, Req{Method: "HEAD", Path: "/" + b + "/leak/k"})
			do(s.h, Req{Method: "GET", Path: "/" + b + "?prefix=leak"})
			do(s.h, Req{Method: "PUT", Path: "/" + b + "/leak/copy", Body: []byte{}, Header: [][2]string{{"X-Amz-Copy-Source", "/" + b + "/leak/k"}}})
		}
		after := count()
		msg := fmt.Sprintf("%s: open file descriptors before and after 600 put/get/head/list/copy requests on one key: %d -> %d", kind, before, after)
		if after-before <= 10 {
			emit("c09", "GOOD", hs(msg))
		} else {
			emit("c09", "BAD", hs(msg))
		}
		nontrivial(kind + "|descriptor-leak")
		s.end()
	}
	// a request whose body trickles in must not hold up the requests of others (multipart included)
	for _, kind := range allKinds {
		mpSlowPart("c09", kind)
	}
	nreq := 350
	if tier == "thorough" {
		nreq = 20000
	}
	type cfgT struct {
		name string
		o    SessOpts
		host string // "", "host", "bases"
	}
	cfgs := []cfgT{{"default", SessOpts{}, ""}, {"auto", SessOpts{Auto: true}, ""}, {"nover", SessOpts{NoVer: true}, ""}, {"host", SessOpts{}, "host"}, {"failpage", SessOpts{FailPage: true}, ""},
		// a server with a host-bucket base, addressed path-style (hosts that are not <bucket>.<base> fall back)
		{"bases", SessOpts{}, "bases"},
		// the request-time check switched on (every request is dated; the canaries carry the server's own time),
		// and the CORS wrapper (every request names an origin)
		{"skew", SessOpts{}, "skew"}, {"cors", SessOpts{}, "cors"}}
	for _, kind := range allKinds {
		for ci, cfg := range cfgs {
			if kind != "mem" && ci > 1 && tier != "thorough" && !(cfg.host == "bases" && kind == "fsmem") && !(cfg.host == "skew" && kind == "bolt") && !(cfg.host == "cors" && kind == "sfsmem") {
				continue
			}
			s := newSess("c09", kind, cfg.o)
			if cfg.host == "host" {
				s.h = newServer(s.st.Backend, gofakes3.WithHostBucket(true))
			}
			if cfg.host == "skew" && s.st.Ext == nil {
				s.h = withHeader{inner: newServerWith(s.st.Backend), k: "X-Amz-Date", v: fixedTime.Format("20060102T150405Z")}
			}
			if cfg.host == "cors" && s.st.Ext == nil {
				s.h = withHeader{inner: newServer(s.st.Backend, gofakes3.WithInsecureCORS()), k: "Origin", v: "http://app.example.test"}
			}
			if cfg.host == "bases" && s.st.Ext == nil {
				s.h = newServer(s.st.Backend, gofakes3.WithHostBucketBase("s3.example.com", "other.test"))
			}
			emit("c09", "NOMODEL")
			f := &fuzzCtx{rng: rng, buckets: []string{singleBucketName, "bkq"}, keys: []string{"k", "d/e", "gone", "marked", "kv"}}
			hostHdr := func(b string) string {
				if cfg.host == "host" {
					return b + ".s3.example.com"
				}
				return ""
			}
			// reachable state: objects, versions with a delete marker, a pending upload with parts
			if !isSingle(kind) && cfg.host != "host" {
				s.MkBucket(singleBucketName)
				s.MkBucket("bkq")
			}
			if cfg.host != "host" {
				s.Put(singleBucketName, "k", []byte("0123456789"), nil)
				s.Put(singleBucketName, "d/e", []byte("nested"), []KV{{"X-Amz-Meta-A", "b"}})
				if kind == "mem" && !cfg.o.NoVer {
					s.SetVersioning(singleBucketName, true)
					s.Put(singleBucketName, "k", []byte("second version"), nil)
					s.Put(singleBucketName, "k", []byte("third version"), nil)
					s.Put(singleBucketName, "kv", []byte("born versioned, 1"), nil)
					s.Put(singleBucketName, "kv", []byte("born versioned, 2"), nil)
					s.Put(singleBucketName, "marked", []byte("to be marked"), nil)
					s.Delete(singleBucketName, "marked")
					// delete markers inside groups of keys: between live keys, last of its group, a group of its own
					for _, gk := range []string{"g/a", "g/b", "g/c", "g2/a", "g2/z", "h/only"} {
						s.Put(singleBucketName, gk, []byte("grouped "+gk), nil)
					}
					for _, gk := range []string{"g/b", "g2/z", "h/only"} {
						s.Delete(singleBucketName, gk)
					}
					f.vids = append(f.vids, s.vids...)
				}
				if id := s.Initiate(singleBucketName, "mp", nil); id != "" {
					s.UploadPart(singleBucketName, "mp", id, 1, []byte("part-1"))
					s.UploadPart(singleBucketName, "mp", id, 3, []byte("part-3"))
					f.uploads = append(f.uploads, id)
				}
				// pending uploads on keys around ones whose uploads were aborted / completed
				for _, mk := range []string{"ma", "mq", "mr", "mz/1", "mz/2"} {
					id := s.Initiate(singleBucketName, mk, nil)
					if id == "" {
						continue
					}
					et := s.UploadPart(singleBucketName, mk, id, 1, []byte("p-"+mk))
					switch mk {
					case "mq", "mz/2":
						s.Abort(singleBucketName, mk, id)
					case "mr":
						s.Complete(singleBucketName, mk, id, []CPart{{1, et}})
					default:
						f.uploads = append(f.uploads, id)
					}
				}
			}
			// keys that begin with what a listing may name as its delimiter (opaque-key backends only)
			if (kind == "mem" || kind == "bolt") && cfg.host != "host" {
				for _, dk := range []string{"/lead", "//x/y", "-a", "-a-b", "bq", "b"} {
					s.Put(singleBucketName, dk, []byte("delim-key"), nil)
				}
			}
			// regression corpus: the requests that used to panic or answer malformed errors
			var corpus []Req
			for _, pd := range [][2]string{{"lead/", "/"}, {"lead", "/"}, {"/lead/", "/"}, {"x/y/", "/"}, {"x/", "/"}, {"a-", "-"}, {"a-b-", "-"}, {"-", "-"}, {"qb", "b"}, {"q", "b"}, {"bq", "b"}, {"k/", "/"}, {"d/e/", "/"}} {
				q := "prefix=" + queryEscape(pd[0]) + "&delimiter=" + queryEscape(pd[1])
				corpus = append(corpus, Req{Method: "GET", Path: "/" + singleBucketName + "?" + q},
					Req{Method: "GET", Path: "/" + singleBucketName + "?list-type=2&" + q},
					Req{Method: "GET", Path: "/" + singleBucketName + "?versions&" + q},
					Req{Method: "GET", Path: "/" + singleBucketName + "?uploads&" + q})
			}
			// a pending upload whose bucket is deleted (it holds no object) before the upload is completed,
			// listed, continued and aborted; bystanders on the other bucket and the bucket's re-creation follow
			if !isSingle(kind) && cfg.host != "host" {
				if id := s.Initiate("bkq", "orphan", nil); id != "" {
					et := s.UploadPart("bkq", "orphan", id, 1, []byte("orphaned part"))
					done := "<CompleteMultipartUpload><Part><PartNumber>1</PartNumber><ETag>" + xmlEsc(et) + "</ETag></Part></CompleteMultipartUpload>"
					corpus = append(corpus, Req{Method: "DELETE", Path: "/bkq"},
						Req{Method: "GET", Path: "/bkq/orphan?uploadId=" + id},
						Req{Method: "PUT", Path: "/bkq/orphan?uploadId=" + id + "&partNumber=2", Body: []byte("more")},
						Req{Method: "POST", Path: "/bkq/orphan?uploadId=" + id, Body: []byte(done)},
						Req{Method: "GET", Path: "/" + singleBucketName + "/k"},
						Req{Method: "DELETE", Path: "/bkq/orphan?uploadId=" + id},
						Req{Method: "GET", Path: "/"},
						Req{Method: "PUT", Path: "/bkq"},
						Req{Method: "GET", Path: "/bkq"})
				}
			}
			for _, src := range []string{"nobucket", "", "/", "a", "//", "/bkt", "bkt/k", "/bkt/k?versionId=x", "/bkt/%zz", "/nosuch/k"} {
				corpus = append(corpus, Req{Method: "PUT", Path: "/" + singleBucketName + "/copied", Body: []byte{}, Header: [][2]string{{"X-Amz-Copy-Source", src}}})
			}
			for _, rg := range []string{"bytes=5-9223372036854775807", "bytes=0-9223372036854775807", "bytes=9223372036854775807-", "bytes=-9223372036854775808"} {
				corpus = append(corpus, Req{Method: "GET", Path: "/" + singleBucketName + "/k", Header: [][2]string{{"Range", rg}}})
			}
			for _, up := range f.uploads {
				for _, m := range []string{"4", "5", "1000000", "9223372036854775807"} {
					corpus = append(corpus, Req{Method: "GET", Path: "/" + singleBucketName + "/mp?uploadId=" + up + "&part-number-marker=" + m})
				}
				for _, pn := range []string{"-1", "-9223372036854775808", "0", "1", "2", "3", "4", "5", "6", "99999", "10000", "10001"} {
					corpus = append(corpus, Req{Method: "POST", Path: "/" + singleBucketName + "/mp?uploadId=" + up,
						Body: []byte("<CompleteMultipartUpload><Part><PartNumber>" + pn + "</PartNumber><ETag>x</ETag></Part></CompleteMultipartUpload>")})
				}
			}
			// object listings page by page over groups that hold delete markers: every small page size x
			// prefix / delimiter / marker, V1 and V2
			for _, up := range f.uploads[:min(1, len(f.uploads))] {
				// a valid first entry followed by every small part number (held, in a gap, one past the highest, far beyond)
				for pn := 0; pn <= 6; pn++ {
					corpus = append(corpus, Req{Method: "POST", Path: "/" + singleBucketName + "/mp?uploadId=" + up,
						Body: []byte(fmt.Sprintf("<CompleteMultipartUpload><Part><PartNumber>1</PartNumber><ETag>\"%x\"</ETag></Part><Part><PartNumber>%d</PartNumber><ETag>x</ETag></Part></CompleteMultipartUpload>", md5.Sum([]byte("part-1")), pn))})
				}
			}
			for n := 1; n <= 6; n++ {
				for _, extra := range []string{"&delimiter=%2F", "&delimiter=%2F&prefix=g", "&delimiter=%2F&prefix=g%2F", "&delimiter=%2F&marker=g%2Fa", "&delimiter=%2F&marker=d%2Fe",
					"&list-type=2&delimiter=%2F", "&list-type=2&delimiter=%2F&start-after=d%2Fe", "&list-type=2&delimiter=%2F&prefix=g2", "&prefix=g", "&delimiter=a", "&list-type=2&delimiter=g"} {
					corpus = append(corpus, Req{Method: "GET", Path: "/" + singleBucketName + "?max-keys=" + strconv.Itoa(n) + extra})
				}
			}
			for n := 0; n <= 5; n++ {
				for _, extra := range []string{"", "&prefix=m", "&delimiter=%2F", "&prefix=m&delimiter=%2F", "&key-marker=ma", "&key-marker=mp", "&prefix=mz%2F"} {
					corpus = append(corpus, Req{Method: "GET", Path: "/" + singleBucketName + "?uploads&max-uploads=" + strconv.Itoa(n) + extra})
				}
			}
			// ranges whose positions sit exactly on, one before and one after the end of the object they are asked of
			// ("k" holds 10 bytes on the unversioned stores, 13 where it has versions; "d/e" holds 6)
			for _, rk := range [][2]string{{"k", "10"}, {"k", "13"}, {"d/e", "6"}} {
				n, _ := strconv.Atoi(rk[1])
				for _, rg := range []string{fmt.Sprintf("bytes=0-%d", n), fmt.Sprintf("bytes=0-%d", n-1), fmt.Sprintf("bytes=0-%d", n+1), fmt.Sprintf("bytes=%d-%d", n-1, n), fmt.Sprintf("bytes=%d-%d", n, n),
					fmt.Sprintf("bytes=%d-", n), fmt.Sprintf("bytes=%d-", n-1), fmt.Sprintf("bytes=-%d", n), fmt.Sprintf("bytes=-%d", n+1), fmt.Sprintf("bytes=1-%d", n)} {
					corpus = append(corpus, Req{Method: "GET", Path: "/" + singleBucketName + "/" + rk[0], Header: [][2]string{{"Range", rg}}})
				}
			}
			// conditional reads of an existing object: every spelling of an entity tag / date a client may send
			for _, cv := range []string{"*", "\"x\"", "W/", "W/\"x\"", "W", "\"", "\"\"", ",", "W/*", "W/\"", " ", "W/ ", "\"5d41402abc4b2a76b9719d911017c592\"", "W/\"781e5e245d69b566979b86e28d23f2c7\"", "781e5e245d69b566979b86e28d23f2c7", "\"a\", W/", ",,", "W/W/"} {
				for _, hn := range []string{"If-None-Match", "If-Match"} {
					corpus = append(corpus, Req{Method: "GET", Path: "/" + singleBucketName + "/d/e", Header: [][2]string{{hn, cv}}},
						Req{Method: "HEAD", Path: "/" + singleBucketName + "/d/e", Header: [][2]string{{hn, cv}}})
				}
			}
			for _, dv := range []string{"Thu, 02 Jan 2020 03:04:05 GMT", "Thu, 02 Jan 2020 03:04:04 GMT", "Thu, 02 Jan 2020 03:04:06 GMT", "yesterday", "0", "", "Thu, 32 Jan 2020 03:04:05 GMT", "Thursday, 02-Jan-20 03:04:05 GMT", "Thu Jan  2 03:04:05 2020"} {
				for _, hn := range []string{"If-Modified-Since", "If-Unmodified-Since"} {
					corpus = append(corpus, Req{Method: "GET", Path: "/" + singleBucketName + "/d/e", Header: [][2]string{{hn, dv}}})
				}
			}
			if kind != "mem" || cfg.o.NoVer {
				// versioning documents that say nothing about the status (what GET ?versioning answers for a
				// bucket that never had versioning, sent back), on servers whose backend has no versioning
				for _, vb := range []string{"<VersioningConfiguration/>", "<VersioningConfiguration><MfaDelete>Disabled</MfaDelete></VersioningConfiguration>",
					`<VersioningConfiguration xmlns="http://s3.amazonaws.com/doc/2006-03-01/"></VersioningConfiguration>`, "<VersioningConfiguration><Other>1</Other></VersioningConfiguration>",
					"<VersioningConfiguration><MfaDelete>Enabled</MfaDelete></VersioningConfiguration>"} {
					corpus = append(corpus, Req{Method: "PUT", Path: "/" + singleBucketName + "?versioning", Body: []byte(vb)})
				}
			}
			for _, v := range append([]string{"3/none"}, f.vids...) {
				corpus = append(corpus, Req{Method: "GET", Path: "/" + singleBucketName + "?versions&key-marker=k&version-id-marker=" + queryEscape(v)},
					Req{Method: "GET", Path: "/" + singleBucketName + "?versions&key-marker=d%2Fe&version-id-marker=" + queryEscape(v)})
			}
			// copies of an object onto itself (the metadata-replace idiom), small and large, repeated
			bigSelf := make([]byte, 300<<10)
			for i := range bigSelf {
				bigSelf[i] = byte(i * 7)
			}
			corpus = append(corpus, Req{Method: "PUT", Path: "/" + singleBucketName + "/selfbig", Body: bigSelf})
			for i := 0; i < 3; i++ {
				for _, sk := range []string{"selfbig", "k"} {
					corpus = append(corpus, Req{Method: "PUT", Path: "/" + singleBucketName + "/" + sk, Body: []byte{}, Header: [][2]string{{"X-Amz-Copy-Source", "/" + singleBucketName + "/" + sk}, {"X-Amz-Meta-Round", strconv.Itoa(i)}}},
						Req{Method: "GET", Path: "/" + singleBucketName + "/d%2Fe"})
				}
			}
			for _, cl := range []string{"4611686018427387904", "9223372036854775807", "1099511627776", "281474976710656", "68719476736"} {
				// a declared length the server must not believe before the bytes arrive
				corpus = append(corpus, Req{Method: "PUT", Path: "/" + singleBucketName + "/huge", Body: []byte("x"), Header: [][2]string{{"Content-Length", cl}}},
					Req{Method: "PUT", Path: "/" + singleBucketName + "/huge", Body: []byte("x"), Header: [][2]string{{"X-Amz-Content-Sha256", "STREAMING-AWS4-HMAC-SHA256-PAYLOAD"}, {"X-Amz-Decoded-Content-Length", cl}}})
			}
			// keys around the lengths at which backends shorten names internally (200 bytes for the metadata
			// files of the fs backends), in characters of one to four bytes: written, read, listed, deleted
			for _, lk := range []string{strings.Repeat("\xe4\xb8\x96", 70), strings.Repeat("k", 199) + "\xc3\xa9\xc3\xa9", "d/" + strings.Repeat("\xc3\xa9", 101), strings.Repeat("\xf0\x9f\x98\x80", 51), strings.Repeat("z", 198) + "\xe2\x82\xac"} {
				p := "/" + singleBucketName + "/" + pathEscape(lk)
				corpus = append(corpus, Req{Method: "PUT", Path: p, Body: []byte("long")}, Req{Method: "GET", Path: p}, Req{Method: "HEAD", Path: p},
					Req{Method: "GET", Path: "/" + singleBucketName}, Req{Method: "GET", Path: "/" + singleBucketName + "?list-type=2&delimiter=%2F"},
					Req{Method: "DELETE", Path: p}, Req{Method: "GET", Path: "/" + singleBucketName})
			}
			// aws-chunked bodies whose chunk-size field is hostile, as an object and as a part of a pending upload
			for _, sz := range []string{"-5", "-1", "-0", "+5", " 5", "ffffffffffffffff", "7fffffffffffffff", "-8000000000000000", "-7fffffffffffffff", "zz", "", "5 "} {
				for _, dl := range []string{"5", "0"} {
					cb := []byte(sz + ";chunk-signature=" + strings.Repeat("0", 64) + "\r\nhello\r\n0;chunk-signature=" + strings.Repeat("0", 64) + "\r\n\r\n")
					hh := [][2]string{{"X-Amz-Content-Sha256", "STREAMING-AWS4-HMAC-SHA256-PAYLOAD"}, {"X-Amz-Decoded-Content-Length", dl}}
					corpus = append(corpus, Req{Method: "PUT", Path: "/" + singleBucketName + "/chunk-size", Body: cb, Header: hh})
					for _, up := range f.uploads[:min(1, len(f.uploads))] {
						corpus = append(corpus, Req{Method: "PUT", Path: "/" + singleBucketName + "/mp?uploadId=" + up + "&partNumber=7", Body: cb, Header: hh})
					}
				}
			}
			corpus = append(corpus,
				Req{Method: "PUT", Path: "/" + singleBucketName + "/neg", Body: []byte("x"), Header: [][2]string{{"X-Amz-Content-Sha256", "STREAMING-AWS4-HMAC-SHA256-PAYLOAD"}, {"X-Amz-Decoded-Content-Length", "-1"}}},
				Req{Method: "PUT", Path: "/"}, Req{Method: "DELETE", Path: "/"}, Req{Method: "POST", Path: "/?delete"})
			for _, vk := range []string{"k", "kv"} { // delete versions oldest first until none is left, reading in between
				for _, v := range f.vids {
					corpus = append(corpus, Req{Method: "DELETE", Path: "/" + singleBucketName + "/" + vk + "?versionId=" + queryEscape(v)},
						Req{Method: "GET", Path: "/" + singleBucketName + "/" + vk}, Req{Method: "HEAD", Path: "/" + singleBucketName + "/" + vk}, Req{Method: "GET", Path: "/" + singleBucketName},
						Req{Method: "GET", Path: "/" + singleBucketName + "?versions"})
				}
			}
			if cfg.host == "host" {
				corpus = nil
			}
			canaryN := 0
			for i := -len(corpus); i < nreq; i++ {
				var rq Req
				var desc string
				if i < 0 {
					rq = corpus[len(corpus)+i]
					desc = rq.Method + " " + rq.Path
				} else {
					rq, desc = f.request()
				}
				if cfg.host == "host" && rq.Host == "" {
					rq.Host = hostHdr(f.buckets[rng.Intn(2)])
				}
				r, hung := doDeadline(s.h, rq, 5*time.Second)
				if r.Status == -1 && !hung {
					continue // not a request net/http would deliver to the handler
				}
				isHead := strings.EqualFold(rq.Method, "HEAD")
				emit("c09", "R", kind, cfg.name, strconv.Itoa(r.Status), hs(errCode(r.Body)), boolField(r.Panic != ""), boolField(hung), boolField(isHead),
					strconv.Itoa(len(r.Body)), boolField(isErrorDoc(r.Body)), hs(desc), hs(fmt.Sprint(rq.Header)), hx(truncate(rq.Body, 200)), hx(truncate([]byte(r.Panic), 200)))
				stat(fmt.Sprintf("status-%d", r.Status))
				nontrivial(fmt.Sprint(kind, cfg.name, r.Status, errCode(r.Body), strings.SplitN(desc, " ", 2)[0], len(rq.Header)))
				if hung {
					// a request that never returns leaves its goroutine (possibly spinning) and its locks behind: the
					// second such report settles the run; what has been written is the replay
					if c09Hangs++; c09Hangs >= 2 {
						out.Flush()
						writeStats(statsPath)
						os.Exit(0)
					}
					break
				}
				// canary: the server still answers correct requests, on another and on the same bucket
				if i >= 0 && i%25 == 24 && cfg.host != "host" {
					canaryN++
					emit("c09", "E")
					c09Canary(s, kind, cfg.o, canaryN)
					emit("c09", "H", kind, "auto=0,versioned=0,pages=0,failpage=0", "-")
					emit("c09", "NOMODEL")
				}
			}
			// last requests (they may empty the store): Minio's force-delete of buckets that hold objects, and
			// afterwards requests that must still be answered
			if cfg.host != "host" {
				fds := []string{singleBucketName}
				if !isSingle(kind) {
					fds = []string{"bkq", singleBucketName}
				}
				for _, fb := range fds {
					do(s.h, Req{Method: "PUT", Path: "/" + fb + "/force/leaf", Body: []byte("in the way")})
					for _, rq := range []Req{{Method: "DELETE", Path: "/" + fb, Header: [][2]string{{"x-minio-force-delete", "true"}}},
						{Method: "GET", Path: "/" + fb}, {Method: "PUT", Path: "/" + fb + "/after-force", Body: []byte("x")}, {Method: "GET", Path: "/"}} {
						r, hung := doDeadline(s.h, rq, 5*time.Second)
						desc := rq.Method + " " + rq.Path + " (force-delete sequence)"
						emit("c09", "R", kind, cfg.name, strconv.Itoa(r.Status), hs(errCode(r.Body)), boolField(r.Panic != ""), boolField(hung), "0",
							strconv.Itoa(len(r.Body)), boolField(isErrorDoc(r.Body)), hs(desc), hs(fmt.Sprint(rq.Header)), "-", hx(truncate([]byte(r.Panic), 200)))
						if hung {
							break
						}
					}
				}
			}
			s.end()
		}
	}
	sample("grammar: method x path (bucket pool incl. nosuch . .. _meta, key pool incl. hostile strings) x 0..3 query parameters out of 26 sub-resources/pagination parameters with valid, absurd, overflowing and non-numeric values x body (multi-delete / complete / versioning XML with hostile fields, malformed XML, random bytes, multipart forms with missing/duplicate parts, aws-chunked incl. truncated, hostile decoded lengths) x 0..2 headers (hostile Range, Content-MD5, X-Amz-Copy-Source, Content-Length, conditional headers, force-delete, oversized metadata) against stores holding objects, versions with a delete marker, pending uploads with parts and keys whose uploads were aborted or completed (keys beginning with a delimiter, plus a fixed corpus of earlier crashers, of listings whose prefix contains the delimiter and of upload listings with every small max-uploads x prefix / delimiter / key-marker); every 25 requests a canary sequence on a fresh bucket and on the fuzzed bucket")
}

func truncate(b []byte, n int) []byte {
	if len(b) > n {
		return b[:n]
	}
	return b
}

// canary sequences: checked against the model from a fresh state (they only touch their own bucket / key)
func c09Canary(s *Sess, kind string, o SessOpts, n int) {
	versioned := kind == "mem" && !o.NoVer
	cfg := fmt.Sprintf("auto=%s,versioned=%s,pages=%s,failpage=%s", boolField(o.Auto), boolField(versioned), boolField(kind == "mem"), boolField(o.FailPage))
	body := []byte(fmt.Sprintf("canary-%d", n))
	if !isSingle(kind) {
		b := fmt.Sprintf("cnry%d", n)
		emit("c09", "H", kind, cfg, "-")
		s.MkBucket(b)
		s.Put(b, "c/k", body, []KV{{"X-Amz-Meta-C", "1"}})
		s.Get(b, "c/k", "")
		s.Head(b, "c/k", "")
		s.List(ListReq{Bucket: b, Delim: "/", MaxKeys: -1})
		s.Delete(b, "c/k")
		s.Get(b, "c/k", "")
		// a multipart upload from start to finish
		if uid := s.Initiate(b, "c/mp", []KV{{"X-Amz-Meta-C", "mp"}}); uid != "" {
			et := s.UploadPart(b, "c/mp", uid, 1, body)
			s.Complete(b, "c/mp", uid, []CPart{{1, et}})
			s.Get(b, "c/mp", "")
			s.Delete(b, "c/mp")
		}
		s.RmBucket(b)
		s.Get(b, "c/k", "")
		emit("c09", "E")
	}
	// same bucket as the fuzzed one (only if it still exists and never had versioning switched on)
	b := "bkq"
	if isSingle(kind) {
		b = singleBucketName
	}
	if r := do(s.h, Req{Method: "HEAD", Path: "/" + b}); r.Status != 200 {
		return
	}
	if r := do(s.h, Req{Method: "GET", Path: "/" + b + "?versioning"}); strings.Contains(string(r.Body), "<Status>") {
		return
	}
	k := fmt.Sprintf("cnry-key-%d", n)
	do(s.h, Req{Method: "DELETE", Path: "/" + b + "/" + k})
	emit("c09", "H", kind, cfg, hs(b))
	s.Put(b, k, body, nil)
	s.Get(b, k, "")
	s.List(ListReq{Bucket: b, Prefix: k, MaxKeys: -1})
	s.Delete(b, k)
	s.Get(b, k, "")
	emit("c09", "E")
}
