package main

import (
	"fmt"
)

func init() { runners["c15"] = runC15 }

// Reopen closes the storage and starts a new backend + server on it (multipart state is volatile)
func (s *Sess) Reopen() error {
	nb, err := s.st.reopen()
	if err != nil {
		return err
	}
	s.h = newServer(nb)
	emit(s.prop, "REOPEN")
	return nil
}

func runC15(tier string, seed uint64) {
	rng := NewRng(seed)
	nseq, length := 10, 30
	if tier == "thorough" {
		nseq, length = 120, 50
	}
	for _, kind := range []string{"bolt", "fsdir", "sfsdir"} {
		for i := 0; i < nseq; i++ {
			s := newSess("c15", kind, SessOpts{})
			u := univFor(kind)
			u.keys = append(u.keys, "k with space", "\xc3\xbc/x")
			if !isSingle(kind) {
				s.MkBucket(u.buckets[0])
			}
			meta := []KV{{"X-Amz-Meta-Color", "blue"}, {"Content-Type", "text/x-verif"}}
			reopens := 1 + rng.Intn(3)
			for r := 0; r < reopens; r++ {
				for j := 0; j < length/reopens; j++ {
					if rng.Intn(5) == 0 {
						b := u.buckets[rng.Intn(len(u.buckets))]
						s.Put(b, u.keys[rng.Intn(len(u.keys))], rng.Bytes(rng.Intn(40)), meta)
					} else {
						c02RandomOp(s, u, rng)
					}
				}
				c02Probe(s, u)
				for _, b := range u.buckets {
					for _, k := range u.keys {
						s.Head(b, k, "")
					}
				}
				if err := s.Reopen(); err != nil {
					emit(s.prop, "REOPENFAIL", hs(err.Error()))
					break
				}
				// the same probes after the restart must give the same answers (the model state is unchanged)
				c02Probe(s, u)
				for _, b := range u.buckets {
					for _, k := range u.keys {
						s.Head(b, k, "")
					}
				}
				nontrivial(fmt.Sprint(kind, i, r))
			}
			s.end()
		}
	}
	sample("bolt file, multi-bucket fs and single-bucket fs (with on-disk metadata) on real temp directories: C02-style random histories (plus puts with random binary bodies and metadata) interleaved with 1..3 clean restarts (close, re-open the same storage, new server); before and after every restart the full probe (bucket list, listings, GET and HEAD of every key incl. metadata) is compared with the model, whose state a restart does not change")
}
