package main

import (
	"fmt"
	"io"
	"strconv"
	"time"
)

func init() { runners["c15"] = runC15 }

// Reopen closes the storage and starts a new backend + server on it (multipart state is volatile)
func (s *Sess) Reopen() error {
	nb, err := s.st.reopen()
	if err != nil {
		return err
	}
	if s.st.Ext != nil {
		s.h = s.st.Ext
	} else {
		s.h = newServer(nb)
	}
	emit(s.prop, "REOPEN")
	return nil
}

func runC15(tier string, seed uint64) {
	rng := NewRng(seed)
	c15BoltSnapshots(NewRng(seed + 11))
	nseq, length := 10, 30
	if tier == "thorough" {
		nseq, length = 120, 50
	}
	for _, kind := range []string{"bolt", "fsdir", "sfsdir"} {
		for i := 0; i < nseq; i++ {
			s := newSess("c15", kind, SessOpts{})
			u := univFor(kind)
			u.keys = append(u.keys, "k with space", "\xc3\xbc/x", ".modtime-resolution") // the last one: the name of a scratch file the fs backends use
			if !isSingle(kind) {
				s.MkBucket(u.buckets[0])
			}
			meta := []KV{{"X-Amz-Meta-Color", "blue"}, {"Content-Type", "text/x-verif"}}
			reopens := 1 + rng.Intn(3)
			for r := 0; r < reopens; r++ {
				for j := 0; j < length/reopens; j++ {
					if rng.Intn(5) == 0 {
						b := u.buckets[rng.Intn(len(u.buckets))]
						s.Put(b, u.keys[rng.Intn(len(u.keys))], rng.Bytes(rng.Intn(40)), meta)
					} else {
						c02RandomOp(s, u, rng)
					}
				}
				c02Probe(s, u)
				for _, b := range u.buckets {
					for _, k := range u.keys {
						s.Head(b, k, "")
					}
				}
				if err := s.Reopen(); err != nil {
					emit(s.prop, "REOPENFAIL", hs(err.Error()))
					break
				}
				// the same probes after the restart must give the same answers (the model state is unchanged)
				c02Probe(s, u)
				for _, b := range u.buckets {
					for _, k := range u.keys {
						s.Head(b, k, "")
					}
				}
				nontrivial(fmt.Sprint(kind, i, r))
			}
			s.end()
		}
	}
	// crash points of single writes on the fs backends
	for _, kind := range []string{"fsdir", "sfsdir"} {
		c15Crash(kind)
	}
	sample("crash points (fs backends on a real directory, file system wrapped): for each of put new key / overwrite longer, shorter, same length, dropping metadata / delete / copy over existing and to a new key / multi-delete / create-bucket, the request is killed immediately before each state-changing file-system call it makes and half way through each file write; a new backend on what is left is probed in full (bucket list, listing, GET+HEAD of every key incl. metadata) and must equal the model state with or without that write")
	// the same against the real server binary (cmd/gofakes3 with its command-line wiring); a restart is kill -9
	if serverBinary != "" {
		nbin, nkill := 3, 3
		if tier == "thorough" {
			nbin, nkill = 25, 60
		}
		for _, kind := range []string{"boltbin", "fsbin", "sfsbin"} {
			for i := 0; i < nbin; i++ {
				c15History(kind, rng, 24, fmt.Sprint(kind, i))
			}
			c15Kill(kind, rng, nkill)
		}
		sample("the real server binary built from /repo/cmd/gofakes3 (-backend bolt | fs with -fs.meta | directfs with -directfs.meta) on scratch directories, requests over TCP: the same random histories, every restart being SIGKILL + a new process on the same storage; and kill points: a stream of acknowledged puts (bodies 0..64 KiB, metadata) / overwrites / deletes, then SIGKILL while one more write is in flight (half of its body sent, or a random 0..3 ms after it was issued); after the restart the full probe must match the model state with or without the in-flight write, nothing else")
	}
	sample("bolt file, multi-bucket fs and single-bucket fs (with on-disk metadata) on real temp directories: C02-style random histories (plus puts with random binary bodies and metadata) interleaved with 1..3 clean restarts (close, re-open the same storage, new server); before and after every restart the full probe (bucket list, listings, GET and HEAD of every key incl. metadata) is compared with the model, whose state a restart does not change")
}

func c15History(kind string, rng *Rng, length int, tag string) {
	s := newSess("c15", kind, SessOpts{})
	u := univFor(kind)
	if !isSingle(kind) {
		s.MkBucket(u.buckets[0])
	}
	meta := []KV{{"X-Amz-Meta-Color", "blue"}, {"Content-Type", "text/x-verif"}}
	reopens := 1 + rng.Intn(2)
	for r := 0; r < reopens; r++ {
		for j := 0; j < length/reopens; j++ {
			if rng.Intn(4) == 0 {
				b := u.buckets[rng.Intn(len(u.buckets))]
				s.Put(b, u.keys[rng.Intn(len(u.keys))], rng.Bytes(rng.Intn(40)), meta)
			} else {
				c02RandomOp(s, u, rng)
			}
		}
		probe := func() {
			c02Probe(s, u)
			for _, b := range u.buckets {
				for _, k := range u.keys {
					s.Head(b, k, "")
				}
			}
		}
		probe()
		// metadata a backend cannot store as sent (values that are not valid UTF-8 are altered by some) is
		// outside the model; whatever the running server answers for it is what the next one answers too
		rawKey := "/" + u.buckets[0] + "/raw-meta"
		rawPut := do(s.h, Req{Method: "PUT", Path: rawKey, Body: []byte("raw metadata"), Header: [][2]string{
			{"Content-Disposition", "attachment; filename=\"caf\xe9.txt\""}, {"X-Amz-Meta-Author", "Andr\xe9"}, {"X-Amz-Meta-Plain", "ascii"}}})
		rawBefore := do(s.h, Req{Method: "HEAD", Path: rawKey})
		// likewise an object whose key is not valid UTF-8 (a Latin-1 file name), with ordinary metadata
		rawKey2 := "/" + u.buckets[0] + "/caf%E9-" + tag + ".txt"
		rawPut2 := do(s.h, Req{Method: "PUT", Path: rawKey2, Body: []byte("raw key"), Header: [][2]string{{"X-Amz-Meta-Colour", "colour-2"}, {"Content-Type", "text/x-demo"}}})
		rawBefore2 := do(s.h, Req{Method: "GET", Path: rawKey2})
		if err := s.Reopen(); err != nil {
			emit(s.prop, "REOPENFAIL", hs(err.Error()))
			break
		}
		if rawPut.Status == 200 {
			rawAfter := do(s.h, Req{Method: "HEAD", Path: rawKey})
			msg := fmt.Sprintf("%s: an object uploaded with metadata values that are not valid UTF-8 answers HEAD %d with %s before the restart and %d with %s after it", kind, rawBefore.Status, metaField(rawBefore.Header), rawAfter.Status, metaField(rawAfter.Header))
			if rawBefore.Status == rawAfter.Status && metaField(rawBefore.Header) == metaField(rawAfter.Header) && rawBefore.Header.Get("ETag") == rawAfter.Header.Get("ETag") {
				emit(s.prop, "GOOD", hs(msg))
			} else {
				emit(s.prop, "BAD", hs("S:metadata-differs-across-restart "+msg))
			}
			do(s.h, Req{Method: "DELETE", Path: rawKey})
		}
		if rawPut2.Status == 200 {
			rawAfter2 := do(s.h, Req{Method: "GET", Path: rawKey2})
			msg := fmt.Sprintf("%s: an object whose key is not valid UTF-8 answers GET %d %q with %s before the restart and %d %q with %s after it", kind, rawBefore2.Status, rawBefore2.Body, metaField(rawBefore2.Header), rawAfter2.Status, rawAfter2.Body, metaField(rawAfter2.Header))
			if rawBefore2.Status == rawAfter2.Status && string(rawBefore2.Body) == string(rawAfter2.Body) && metaField(rawBefore2.Header) == metaField(rawAfter2.Header) && rawBefore2.Header.Get("ETag") == rawAfter2.Header.Get("ETag") {
				emit(s.prop, "GOOD", hs(msg))
			} else {
				emit(s.prop, "BAD", hs("S:object-differs-across-restart "+msg))
			}
			do(s.h, Req{Method: "DELETE", Path: rawKey2})
		}
		probe()
		nontrivial(fmt.Sprint(tag, r))
	}
	s.end()
}

// halfReader hands out the first half of the body, reports that it did, and then waits
type halfReader struct {
	data    []byte
	half    int
	sent    int
	reached chan struct{}
	cont    chan struct{}
	told    bool
}

func (h *halfReader) Read(p []byte) (int, error) {
	if h.sent >= h.half && !h.told {
		h.told = true
		close(h.reached)
		<-h.cont
	}
	if h.sent >= len(h.data) {
		return 0, io.EOF
	}
	lim := len(h.data)
	if !h.told && h.half < lim {
		lim = h.half
	}
	n := copy(p, h.data[h.sent:lim])
	h.sent += n
	return n, nil
}

// c15Kill: acknowledged writes, then SIGKILL with one more write in flight
func c15Kill(kind string, rng *Rng, nrounds int) {
	s := newSess("c15", kind, SessOpts{})
	b := singleBucketName
	if !isSingle(kind) {
		s.MkBucket(b)
	}
	keys := []string{"a/b", "d", "e/f/g"}
	sizes := []int{0, 1, 700, 9000, 65536}
	probe := func() {
		s.ListBuckets()
		s.List(ListReq{Bucket: b, MaxKeys: -1})
		for _, k := range keys {
			s.Get(b, k, "")
			s.Head(b, k, "")
		}
	}
	for round := 0; round < nrounds; round++ {
		for j := rng.Intn(5); j > 0; j-- {
			k := keys[rng.Intn(len(keys))]
			if rng.Intn(4) == 0 {
				s.Delete(b, k)
			} else {
				s.Put(b, k, rng.Bytes(sizes[rng.Intn(len(sizes))]), []KV{{"X-Amz-Meta-Round", strconv.Itoa(round)}})
			}
		}
		// the write in flight
		k := keys[rng.Intn(len(keys))]
		meta := []KV{{"X-Amz-Meta-Round", "inflight-" + strconv.Itoa(round)}, {"Content-Type", "text/x-inflight"}}
		mode := rng.Intn(3) // 0: delete, timed; 1: put, killed mid-body; 2: put, timed
		body := rng.Bytes(sizes[1+rng.Intn(len(sizes)-1)])
		done := make(chan struct{})
		s.startCapture()
		var hr *halfReader
		switch mode {
		case 0:
			go func() { defer close(done); s.Delete(b, k) }()
		case 1:
			hr = &halfReader{data: body, half: len(body) / 2, reached: make(chan struct{}), cont: make(chan struct{})}
			go func() {
				defer close(done)
				hdr := [][2]string{{"Content-Length", strconv.Itoa(len(body))}}
				for _, kv := range meta {
					hdr = append(hdr, [2]string{kv.K, kv.V})
				}
				r := do(s.h, Req{Method: "PUT", Path: "/" + b + "/" + k, Reader: hr, Header: hdr})
				s.emitOp("put", []string{hs(b), hs(k), hx(body), metaArg(meta)}, obsT{r: r})
			}()
		default:
			go func() { defer close(done); s.Put(b, k, body, meta) }()
		}
		if hr != nil {
			if !waitOr(hr.reached, 5*time.Second) {
				emit(s.prop, "NOTE", hs("half-sent body never requested"))
			}
			time.Sleep(time.Duration(rng.Intn(3000)) * time.Microsecond) // let the server consume what was sent
		} else {
			time.Sleep(time.Duration(rng.Intn(3000)) * time.Microsecond)
		}
		s.st.Ext.kill()
		if hr != nil {
			close(hr.cont)
		}
		<-done
		recs := s.takeCapture()
		for _, c := range recs {
			if c.o.r.Status == 599 {
				emit(append([]string{s.prop, "MAYBE", c.name}, c.args...)...)
				stat("inflight-at-kill-" + c.name)
			} else {
				s.emitOpX(c.name, c.args, c.o, c.noteV)
				stat("acknowledged-before-kill-" + c.name)
			}
		}
		if err := s.st.Ext.start(); err != nil {
			emit(s.prop, "REOPENFAIL", hs(err.Error()))
			break
		}
		emit(s.prop, "REOPEN")
		probe()
		// whatever the kill left of the in-flight write, an acknowledged delete of that key brings the
		// store and every candidate model state back together before the next round
		s.Delete(b, k)
		nontrivial(fmt.Sprint(kind, "kill", round))
	}
	s.end()
}
