package main

import (
	"bytes"
	"fmt"
	"github.com/johannesboyne/gofakes3"
	"os"
	"path/filepath"
	"strconv"
)

func init() { runners["c11"] = runC11 }

func c11Body(n int) []byte {
	b := make([]byte, n)
	for i := range b {
		b[i] = byte('a' + i%26)
	}
	return b
}

func c11Headers(n int, tier string, rng *Rng) []string {
	var hs []string
	add := func(s string) { hs = append(hs, s) }
	var vals []int
	if n <= 32 {
		for a := -1; a <= n+2; a++ {
			vals = append(vals, a)
		}
	} else {
		vals = []int{-1, 0, 1, 2, n / 2, n - 2, n - 1, n, n + 1, n + 2}
	}
	for _, a := range vals {
		add(fmt.Sprintf("bytes=%d-", a))
		add(fmt.Sprintf("bytes=-%d", a))
		for _, b := range vals {
			add(fmt.Sprintf("bytes=%d-%d", a, b))
		}
	}
	bounds := []string{"2147483647", "2147483648", "4294967296", "9223372036854775806", "9223372036854775807",
		"9223372036854775808", "-9223372036854775808", "18446744073709551616", "-9223372036854775809"}
	smalls := []string{"0", "1", strconv.Itoa(n / 2), strconv.Itoa(n - 1), strconv.Itoa(n), strconv.Itoa(n + 1)}
	for _, x := range bounds {
		add("bytes=" + x + "-")
		add("bytes=-" + x)
		for _, y := range smalls {
			add("bytes=" + y + "-" + x)
			add("bytes=" + x + "-" + y)
		}
		for _, y := range bounds {
			add("bytes=" + x + "-" + y)
		}
	}
	// syntax variants
	for _, s := range []string{"", "bytes=", "bytes=-", "bytes=--5", "bytes=--", "bytes=1", "bytes= 1 - 2 ", "bytes=1 -2", "bytes=\t1-\t2",
		" bytes=1-2", "bytes =1-2", "Bytes=1-2", "bytes=1-2,3-4", "bytes=0-0,", "bytes=,", "boats=0-0", "bytes=a-b", "bytes=1-b", "bytes=0x1-2",
		"bytes=+1-+2", "bytes=-+2", "bytes=1_0-2", "bytes=1-2-3", "bytes=1.0-2", "bytes=1-2 ", "bytes=01-02", "bytes=0-", "bytes=-0", "bytes=-00",
		"bytes= - 1", "bytes=1 - ", "bytes=\v1-2\f", "bytes=1- 2\r\n", "items=1-2", "bytes", "bytes=1-2;", "bytes=1–2",
		// numerals are decimal in every position: leading zeros change nothing, other notations are not numbers
		"bytes=-010", "bytes=-08", "bytes=-09", "bytes=-044", "bytes=-0x4", "bytes=-0X4", "bytes=-0b11", "bytes=-0o7", "bytes=-1_0", "bytes=-0_1",
		"bytes=010-017", "bytes=0-010", "bytes=08-", "bytes=0x0-", "bytes=0b1-", "bytes=0o1-3", "bytes=1-0x3", "bytes=1-1_0", "bytes=-1e1", "bytes=1e0-"} {
		add(s)
	}
	// a header is malformed before it is a multi-range request: a comma does not make a foreign unit valid
	for _, h := range []string{"items=0-1,3-4", "bytes 0-1,3-4", "Bytes=0-1,3-4", "0-1,3-4", ",", "=0-1,2-3", "byte=0-1,2-3", "bytes:0-1,2-3", ",bytes=0-1", "x,bytes=0-1"} {
		add(h)
	}
	// the unit is a prefix, once: whatever follows "bytes=" is the range spec, also when it looks like
	// (part of) the unit again
	for _, junk := range []string{"=", "==", "b", "y", "t", "e", "s", "bytes=", "bytes", "byte", "tes=", "=bytes=", "sb=", "yes"} {
		for _, spec := range []string{"1-2", "-3", "2-", "0-0"} {
			add("bytes=" + junk + spec)
		}
	}
	// seeded random from a small grammar
	cnt := 40
	if tier == "thorough" {
		cnt = 400
	}
	toks := []string{"0", "1", "2", strconv.Itoa(n), strconv.Itoa(n - 1), strconv.Itoa(n + 1), "-", "-", " ", ",", "+", "9223372036854775807", "9", "\t", "x", "", "=", "b", "s", "e"}
	for i := 0; i < cnt; i++ {
		s := "bytes="
		k := 1 + rng.Intn(5)
		for j := 0; j < k; j++ {
			s += rng.Pick(toks)
		}
		add(s)
	}
	return hs
}

func runC11(tier string, seed uint64) {
	rng := NewRng(seed)
	maxN := 6
	if tier == "thorough" {
		maxN = 24
	}
	sizes := []int{}
	for n := 0; n <= maxN; n++ {
		sizes = append(sizes, n)
	}
	sizes = append(sizes, 100, 4097)
	for _, kind := range allKinds {
		st := newStore(kind)
		h := newServer(st.Backend)
		bucket := singleBucketName
		if !isSingle(kind) {
			if r := do(h, Req{Method: "PUT", Path: "/" + bucket}); r.Status != 200 {
				panic(fmt.Sprint("create bucket failed ", kind, r.Status, string(r.Body)))
			}
		}
		for _, n := range sizes {
			data := c11Body(n)
			key := fmt.Sprintf("obj%d", n)
			if r := do(h, Req{Method: "PUT", Path: "/" + bucket + "/" + key, Body: data}); r.Status != 200 {
				panic(fmt.Sprint("put failed ", kind, r.Status, string(r.Body)))
			}
			hdrs := c11Headers(n, tier, rng)
			for hi, hdr := range hdrs {
				var hh [][2]string
				if hdr != "" {
					hh = append(hh, [2]string{"Range", hdr})
				}
				// a client resuming a download sends a precondition along (an entity tag it holds, the date of
				// its copy); when it does not turn the answer into 304 it changes nothing about the range
				switch hi % 7 {
				case 3:
					hh = append(hh, [2]string{"If-None-Match", `"0123456789abcdef0123456789abcdef"`})
				case 5:
					hh = append(hh, [2]string{"If-Modified-Since", "Mon, 02 Jan 2006 15:04:05 GMT"})
				}
				r := do(h, Req{Method: "GET", Path: "/" + bucket + "/" + key, Header: hh})
				p := "0"
				if r.Panic != "" {
					p = "1"
					stat("impl-panic")
				}
				emit("c11", kind, hs(hdr), hx(data), strconv.Itoa(r.Status), hs(errCode(r.Body)),
					hs(r.Header.Get("Content-Range")), hs(r.Header.Get("Content-Length")), hx(bodyIfOK(r)), p)
				if r.Header.Get("Content-Range") != "" || r.Status == 416 {
					nontrivial(kind + "|" + hdr + "|" + strconv.Itoa(n))
				}
				stat(fmt.Sprintf("status-%d", r.Status))
				stat("backend-" + kind)
				if len(samples) < 6 && r.Status == 200 && hdr != "" {
					sample(fmt.Sprintf("%s size=%d Range=%q -> %d Content-Range=%q body=%q", kind, n, hdr, r.Status, r.Header.Get("Content-Range"), string(r.Body)))
				}
			}
		}
		// the same through an explicit version id (memory backend, versioning enabled): an older
		// and the current version of one key, each read by id with a Range header
		if kind == "mem" {
			body := `<VersioningConfiguration xmlns="http://s3.amazonaws.com/doc/2006-03-01/"><Status>Enabled</Status></VersioningConfiguration>`
			do(h, Req{Method: "PUT", Path: "/" + bucket + "?versioning", Body: []byte(body)})
			var vids []string
			datas := [][]byte{c11Body(9), c11Body(5)}
			for _, d := range datas {
				r := do(h, Req{Method: "PUT", Path: "/" + bucket + "/versioned", Body: d})
				vids = append(vids, r.Header.Get("x-amz-version-id"))
			}
			for vi, vid := range vids {
				if vid == "" {
					continue
				}
				for _, hdr := range c11Headers(len(datas[vi]), tier, rng) {
					var hh [][2]string
					if hdr != "" {
						hh = append(hh, [2]string{"Range", hdr})
					}
					r := do(h, Req{Method: "GET", Path: "/" + bucket + "/versioned?versionId=" + queryEscape(vid), Header: hh})
					p := "0"
					if r.Panic != "" {
						p = "1"
					}
					emit("c11", kind, hs(hdr), hx(datas[vi]), strconv.Itoa(r.Status), hs(errCode(r.Body)),
						hs(r.Header.Get("Content-Range")), hs(r.Header.Get("Content-Length")), hx(bodyIfOK(r)), p)
					stat("by-version-id")
					if r.Header.Get("Content-Range") != "" || r.Status == 416 {
						nontrivial(kind + "|vid|" + hdr + "|" + strconv.Itoa(vi))
					}
				}
			}
		}
		// a ranged read held open (the handler streams after the backend call has returned) while other
		// writes commit: the window read is the window asked for
		if st.Backend != nil && st.Ext == nil {
			data := c11Body(4097)
			for ri, rg := range []gofakes3.ObjectRangeRequest{{Start: 10, End: 15}, {Start: 3000, End: 4096}, {Start: 100, FromEnd: true, End: 100}, {Start: 2000, End: 4000}, {Start: 5, End: 4090}} {
				rq := rg
				o, err := st.Backend.GetObject(bucket, "obj4097", &rq)
				if err != nil || o == nil || o.Range == nil {
					continue
				}
				for i := 0; i < 12; i++ {
					do(h, Req{Method: "PUT", Path: fmt.Sprintf("/%s/filler-%d", bucket, i), Body: bytes.Repeat([]byte{byte(i)}, 40000)})
				}
				// ... and while other clients make ranged reads of their own (of other objects and of this one),
				// read to the end: a reader's window is its own
				for i := 0; i < 12; i++ {
					do(h, Req{Method: "GET", Path: fmt.Sprintf("/%s/filler-%d", bucket, i), Header: [][2]string{{"Range", fmt.Sprintf("bytes=%d-%d", i, i+5+i*2000)}}})
					do(h, Req{Method: "GET", Path: "/" + bucket + "/obj4097", Header: [][2]string{{"Range", fmt.Sprintf("bytes=%d-%d", 200*i, 200*i+50)}}})
				}
				// ... and while the object itself is overwritten (by a shorter body, by other bytes of the same length):
				// the read goes on with the entity it was answered from
				switch ri {
				case 3:
					do(h, Req{Method: "PUT", Path: "/" + bucket + "/obj4097", Body: []byte("a much shorter body")})
				case 4:
					do(h, Req{Method: "PUT", Path: "/" + bucket + "/obj4097", Body: bytes.Repeat([]byte("OTHER"), 820)[:4097]})
				}
				got, rerr := readAllGuarded(o.Contents)
				o.Contents.Close()
				if ri >= 3 {
					do(h, Req{Method: "PUT", Path: "/" + bucket + "/obj4097", Body: data})
				}
				want := data[o.Range.Start : o.Range.Start+o.Range.Length]
				for i := 0; i < 12; i++ {
					do(h, Req{Method: "DELETE", Path: fmt.Sprintf("/%s/filler-%d", bucket, i)})
				}
				hdr := fmt.Sprintf("bytes=%d-%d", o.Range.Start, o.Range.Start+o.Range.Length-1)
				status, faulted := 200, "0"
				if !bytes.Equal(got, want) {
					stat("held-range-differs")
				}
				if rerr != nil {
					faulted = "1" // reported like a panic of the handler: the body could not be delivered
				}
				emit("c11", kind, hs(hdr), hx(data), strconv.Itoa(status), hs(""), hs(fmt.Sprintf("bytes %d-%d/%d", o.Range.Start, o.Range.Start+o.Range.Length-1, len(data))), hs(strconv.Itoa(int(o.Range.Length))), hx(got), faulted)
				stat("held-ranged-read")
				nontrivial(kind + "|held-range|" + hdr)
			}
		}
		// a ranged read as the first read of an object whose metadata record is gone (lost with its
		// directory, or a server restarted over the same files): the backend rebuilds the record on
		// the way; the bytes are the same
		if st.reopen != nil && st.dir != "" && (kind == "fsdir" || kind == "sfsdir") {
			metaDir := filepath.Join(st.dir, "metadata")
			if kind == "sfsdir" {
				metaDir = filepath.Join(st.dir, "meta")
			}
			data := c11Body(100)
			for _, hdr := range []string{"bytes=10-15", "bytes=-5", "bytes=90-", "bytes=1-1", "bytes=0-3", "bytes=99-200"} {
				ents, _ := os.ReadDir(metaDir)
				for _, e := range ents {
					os.RemoveAll(filepath.Join(metaDir, e.Name()))
				}
				nb, err := st.reopen()
				if err != nil {
					break
				}
				h = newServer(nb)
				r := do(h, Req{Method: "GET", Path: "/" + bucket + "/obj100", Header: [][2]string{{"Range", hdr}}})
				p := "0"
				if r.Panic != "" {
					p = "1"
				}
				emit("c11", kind, hs(hdr), hx(data), strconv.Itoa(r.Status), hs(errCode(r.Body)),
					hs(r.Header.Get("Content-Range")), hs(r.Header.Get("Content-Length")), hx(bodyIfOK(r)), p)
				stat("first-read-after-metadata-loss")
				nontrivial(kind + "|first-read|" + hdr)
			}
		}
		st.Close()
	}
}

func bodyIfOK(r Resp) []byte {
	if r.Status >= 200 && r.Status < 300 {
		return r.Body
	}
	return nil
}
