package main

import (
	"encoding/base64"
	"encoding/xml"
	"fmt"
	"net/http"
	"sort"
	"strconv"
	"strings"
	"sync"

	"github.com/johannesboyne/gofakes3"
)

// Sess drives one server instance and writes one trace line per operation.
type Sess struct {
	prop    string
	kind    string
	st      *Store
	h       http.Handler
	vids    []string // version ids seen, in order of first appearance
	opts    SessOpts
	nops    int
	verDocs int // versioning documents sent so far (every third suspension does not mention the status)
	walks   int // paginated walks so far (every third one opens with an empty marker parameter)

	// while capturing, operations are recorded instead of written (concurrent rounds emit them afterwards)
	mute           bool   // dry runs: nothing is written to the trace
	listExtra      string // query parameters added to every object listing (e.g. encoding-type=url, which the server ignores)
	everEnabled    bool   // versioning was enabled at some point: listed version ids are real ids from then on
	wireNullMarker bool   // ListVersions: send version-id-marker=null where the trace says "no version id marker"
	capMu          sync.Mutex
	capturing      bool
	captured       []capRec
}

type capRec struct {
	name  string
	args  []string
	o     obsT
	noteV bool
}

func (s *Sess) startCapture() { s.capMu.Lock(); s.capturing = true; s.captured = nil; s.capMu.Unlock() }
func (s *Sess) takeCapture() []capRec {
	s.capMu.Lock()
	recs := s.captured
	s.capturing, s.captured = false, nil
	s.capMu.Unlock()
	return recs
}
func (s *Sess) flushCapture() {
	s.capMu.Lock()
	recs := s.captured
	s.capturing, s.captured = false, nil
	s.capMu.Unlock()
	for _, c := range recs {
		s.emitOpX(c.name, c.args, c.o, c.noteV)
	}
}

type SessOpts struct {
	NoIntegrity bool
	MetaLimit   int // 0 = default
	Auto        bool
	FailPage    bool
	NoVer       bool
	HostMode    bool
}

func newSess(prop, kind string, o SessOpts) *Sess {
	st := newStore(kind)
	var opts []gofakes3.Option
	if o.Auto {
		opts = append(opts, gofakes3.WithAutoBucket(true))
	}
	if o.FailPage {
		opts = append(opts, gofakes3.WithUnimplementedPageError())
	}
	if o.NoVer {
		opts = append(opts, gofakes3.WithoutVersioning())
	}
	if o.NoIntegrity {
		opts = append(opts, gofakes3.WithIntegrityCheck(false))
	}
	if o.MetaLimit != 0 {
		opts = append(opts, gofakes3.WithMetadataSizeLimit(o.MetaLimit))
	}
	s := &Sess{prop: prop, kind: kind, st: st, opts: o}
	if st.Ext != nil {
		s.h = st.Ext // options are command-line flags there; none of the callers uses any
	} else {
		s.h = newServer(st.Backend, opts...)
	}
	versioned := kind == "mem" && !o.NoVer
	pre := "-"
	if isSingle(kind) {
		pre = hs(singleBucketName)
	}
	emit(prop, "H", kind, fmt.Sprintf("auto=%s,versioned=%s,pages=%s,failpage=%s",
		boolField(o.Auto), boolField(versioned), boolField(kind == "mem"), boolField(o.FailPage)), pre)
	return s
}

func (s *Sess) end() {
	emit(s.prop, "E")
	s.st.Close()
}

type listXML struct {
	IsTruncated    bool   `xml:"IsTruncated"`
	NextMarker     string `xml:"NextMarker"`
	NextToken      string `xml:"NextContinuationToken"`
	KeyCount       int    `xml:"KeyCount"`
	CommonPrefixes []struct {
		Prefix string `xml:"Prefix"`
	} `xml:"CommonPrefixes"`
	Contents []struct {
		Key  string `xml:"Key"`
		ETag string `xml:"ETag"`
		Size int64  `xml:"Size"`
	} `xml:"Contents"`
}

type obsT struct {
	versions  []string // per listed version: hex(id):marker:latest
	r         Resp
	names     []string
	contents  []string
	truncated bool
	next      string
	etag      string
}

func (s *Sess) noteVid(v string) {
	if v == "" {
		return
	}
	for _, x := range s.vids {
		if x == v {
			return
		}
	}
	s.vids = append(s.vids, v)
}

func metaField(h http.Header) string {
	var ps []string
	for k, v := range h {
		// everything gofakes3 stores with an object and hands back: the x-amz-* request headers and three entity headers
		if (strings.HasPrefix(k, "X-Amz-") && k != "X-Amz-Version-Id" && k != "X-Amz-Delete-Marker" && k != "X-Amz-Request-Id" && k != "X-Amz-Id-2" && k != "X-Amz-Copy-Source-Version-Id") ||
			k == "Content-Type" || k == "Content-Encoding" || k == "Content-Disposition" {
			ps = append(ps, hs(k)+":"+hs(v[0]))
		}
	}
	sort.Strings(ps)
	if len(ps) == 0 {
		return "-"
	}
	return strings.Join(ps, ",")
}

func joinRaw(xs []string) string {
	if len(xs) == 0 {
		return "-"
	}
	return strings.Join(xs, ",")
}

func joinHex(xs []string) string {
	if len(xs) == 0 {
		return "-"
	}
	o := make([]string, len(xs))
	for i, x := range xs {
		o[i] = hs(x)
	}
	return strings.Join(o, ",")
}

func (s *Sess) emitOp(name string, args []string, o obsT) { s.emitOpX(name, args, o, true) }

// emitOpRaw: the x-amz-version-id slot carries something else (do not record it as a version id)
func (s *Sess) emitOpRaw(name string, args []string, o obsT) { s.emitOpX(name, args, o, false) }

func (s *Sess) emitOpX(name string, args []string, o obsT, noteV bool) {
	if s.mute {
		return
	}
	s.capMu.Lock()
	if s.capturing {
		s.captured = append(s.captured, capRec{name, args, o, noteV})
		s.capMu.Unlock()
		return
	}
	s.capMu.Unlock()
	r := o.r
	etag := o.etag
	if etag == "" {
		etag = r.Header.Get("ETag")
	}
	body := r.Body
	if r.Status < 200 || r.Status > 299 || name == "list" || name == "lsb" || name == "mdel" || name == "copy" || name == "ver" || name == "init" || name == "done" || name == "lsp" || name == "lsu" || name == "lsv" {
		body = nil
	}
	vid := r.Header.Get("x-amz-version-id")
	if noteV && name != "copy" {
		// (a copy answers with the version id of its source, not with that of the version it made: no property
		// speaks of that header, and the id may be one the server otherwise keeps to itself)
		s.noteVid(vid)
	}
	fields := append([]string{s.prop, "O", name}, args...)
	contents := "-"
	if len(o.contents) > 0 {
		contents = strings.Join(o.contents, ",")
	}
	fields = append(fields, "=>", strconv.Itoa(r.Status), hs(errCode(r.Body)), boolField(r.Panic != ""),
		hx(body), hs(etag), hs(r.Header.Get("Content-Length")), hs(vid), hs(r.Header.Get("x-amz-delete-marker")),
		metaField(r.Header), joinHex(o.names), contents, boolField(o.truncated), hs(o.next), joinRaw(o.versions))
	emit(fields...)
	s.nops++
	stat("op-" + name)
	stat(fmt.Sprintf("%s-%d", name, r.Status))
	if r.Panic != "" {
		stat("impl-panic")
	}
}

func (s *Sess) MkBucket(b string) Resp {
	r := do(s.h, Req{Method: "PUT", Path: "/" + pathEscape(b)})
	s.emitOp("mkb", []string{hs(b)}, obsT{r: r})
	return r
}
func (s *Sess) RmBucket(b string) Resp {
	r := do(s.h, Req{Method: "DELETE", Path: "/" + pathEscape(b)})
	s.emitOp("rmb", []string{hs(b)}, obsT{r: r})
	return r
}
func (s *Sess) HeadBucket(b string) Resp {
	r := do(s.h, Req{Method: "HEAD", Path: "/" + pathEscape(b)})
	s.emitOp("hdb", []string{hs(b)}, obsT{r: r})
	return r
}
func (s *Sess) ListBuckets() Resp {
	r := do(s.h, Req{Method: "GET", Path: "/"})
	names := xmlAll(string(r.Body), "Name")
	sort.Strings(names)
	s.emitOp("lsb", nil, obsT{r: r, names: names})
	return r
}

type KV struct{ K, V string }

func metaArg(m []KV) string {
	if len(m) == 0 {
		return "-"
	}
	var ps []string
	for _, kv := range m {
		ps = append(ps, hs(http.CanonicalHeaderKey(kv.K))+":"+hs(kv.V))
	}
	return strings.Join(ps, ",")
}

func (s *Sess) Put(b, k string, body []byte, m []KV) Resp {
	var hdr [][2]string
	for _, kv := range m {
		hdr = append(hdr, [2]string{kv.K, kv.V})
	}
	if body == nil {
		body = []byte{}
	}
	r := do(s.h, Req{Method: "PUT", Path: "/" + pathEscape(b) + "/" + pathEscape(k), Body: body, Header: hdr})
	s.emitOp("put", []string{hs(b), hs(k), hx(body), metaArg(m)}, obsT{r: r})
	return r
}

// PutWithHeaders: metadata m is what the model tracks; hdr are all headers actually sent
func (s *Sess) PutWithHeaders(b, k string, body []byte, m []KV, hdr []KV) Resp {
	var hh [][2]string
	for _, kv := range hdr {
		hh = append(hh, [2]string{kv.K, kv.V})
	}
	if body == nil {
		body = []byte{}
	}
	r := do(s.h, Req{Method: "PUT", Path: "/" + pathEscape(b) + "/" + pathEscape(k), Body: body, Header: hh})
	s.emitOp("put", []string{hs(b), hs(k), hx(body), metaArg(m)}, obsT{r: r})
	return r
}

func vq(vid string) string {
	if vid == "" {
		return ""
	}
	return "?versionId=" + queryEscape(vid)
}

func (s *Sess) Get(b, k, vid string) Resp {
	r := do(s.h, Req{Method: "GET", Path: "/" + pathEscape(b) + "/" + pathEscape(k) + vq(vid)})
	s.emitOp("get", []string{hs(b), hs(k), hs(vid)}, obsT{r: r})
	return r
}
func (s *Sess) Head(b, k, vid string) Resp {
	r := do(s.h, Req{Method: "HEAD", Path: "/" + pathEscape(b) + "/" + pathEscape(k) + vq(vid)})
	s.emitOp("head", []string{hs(b), hs(k), hs(vid)}, obsT{r: r})
	return r
}
func (s *Sess) Delete(b, k string) Resp {
	r := do(s.h, Req{Method: "DELETE", Path: "/" + pathEscape(b) + "/" + pathEscape(k)})
	s.emitOp("del", []string{hs(b), hs(k)}, obsT{r: r})
	return r
}
func (s *Sess) DeleteVersion(b, k, vid string) Resp {
	if vid == "" { // no such reference: a plain delete
		return s.Delete(b, k)
	}
	r := do(s.h, Req{Method: "DELETE", Path: "/" + pathEscape(b) + "/" + pathEscape(k) + vq(vid)})
	s.emitOp("delv", []string{hs(b), hs(k), hs(vid)}, obsT{r: r})
	return r
}

func xmlEsc(s string) string {
	var sb strings.Builder
	xml.EscapeText(&sb, []byte(s))
	return sb.String()
}

func (s *Sess) MultiDelete(b string, ks []KV) Resp { // K = key, V = version id or ""
	var sb strings.Builder
	sb.WriteString("<Delete>")
	var arg []string
	for _, kv := range ks {
		sb.WriteString("<Object><Key>" + xmlEsc(kv.K) + "</Key>")
		if kv.V != "" {
			sb.WriteString("<VersionId>" + xmlEsc(kv.V) + "</VersionId>")
		}
		sb.WriteString("</Object>")
		arg = append(arg, hs(kv.K)+":"+hs(kv.V))
	}
	sb.WriteString("</Delete>")
	r := do(s.h, Req{Method: "POST", Path: "/" + pathEscape(b) + "?delete", Body: []byte(sb.String())})
	var deleted []string
	for _, blk := range xmlBlocks(string(r.Body), "Deleted") {
		ks := xmlAll(blk, "Key")
		if len(ks) > 0 {
			deleted = append(deleted, ks[0])
		}
	}
	a := "-"
	if len(arg) > 0 {
		a = strings.Join(arg, ",")
	}
	s.emitOp("mdel", []string{hs(b), a}, obsT{r: r, names: deleted})
	return r
}

func xmlBlocks(s, tag string) []string {
	var out []string
	open, close := "<"+tag+">", "</"+tag+">"
	for {
		i := strings.Index(s, open)
		if i < 0 {
			return out
		}
		s = s[i+len(open):]
		j := strings.Index(s, close)
		if j < 0 {
			return out
		}
		out = append(out, s[:j])
		s = s[j+len(close):]
	}
}

func (s *Sess) Copy(sb, sk, b, k string) Resp { return s.CopyWith(sb, sk, b, k, nil) }

// CopyWith: a copy whose request carries metadata headers of its own (they win over the source's)
func (s *Sess) CopyWith(sb, sk, b, k string, m []KV) Resp {
	src := "/" + sb + "/" + queryEscape(sk)
	hdr := [][2]string{{"X-Amz-Copy-Source", src}}
	for _, kv := range m {
		hdr = append(hdr, [2]string{kv.K, kv.V})
	}
	r := do(s.h, Req{Method: "PUT", Path: "/" + pathEscape(b) + "/" + pathEscape(k), Body: []byte{}, Header: hdr})
	et := ""
	if e := xmlAll(string(r.Body), "ETag"); len(e) > 0 {
		et = e[0]
	}
	s.emitOp("copy", []string{hs(sb), hs(sk), hs(b), hs(k), metaArg(m)}, obsT{r: r, etag: et})
	return r
}

func (s *Sess) SetVersioning(b string, enable bool) Resp {
	status := "Suspended"
	if enable {
		status = "Enabled"
	}
	// (the status word is read without regard to case and surrounding blanks)
	spelt := []string{status, strings.ToUpper(status), status, strings.ToLower(status), status, " " + status + "\n"}[s.verDocs%6]
	body := `<VersioningConfiguration xmlns="http://s3.amazonaws.com/doc/2006-03-01/"><Status>` + spelt + `</Status></VersioningConfiguration>`
	if s.verDocs++; !enable && s.verDocs%3 == 0 {
		// a document that does not mention the status (what GET ?versioning answers for a bucket that never
		// had versioning, sent back; or one that only speaks of MfaDelete): versioning is not enabled by it,
		// which for a bucket that has it enabled means suspended
		body = []string{`<VersioningConfiguration xmlns="http://s3.amazonaws.com/doc/2006-03-01/"><MfaDelete>Disabled</MfaDelete></VersioningConfiguration>`, `<VersioningConfiguration/>`}[s.verDocs/3%2]
	}
	r := do(s.h, Req{Method: "PUT", Path: "/" + pathEscape(b) + "?versioning", Body: []byte(body)})
	s.emitOp("ver", []string{hs(b), boolField(enable)}, obsT{r: r})
	if enable && r.Status == 200 {
		s.everEnabled = true
	}
	return r
}

type ListReq struct {
	Bucket, Prefix, Delim, Marker string
	HasMarker                     bool
	MaxKeys                       int // <0 = absent
	V2                            bool
	StartAfter                    bool   // V2: send marker as start-after instead of continuation-token
	EmptyDelim                    bool   // send "delimiter=" with an empty value (the same as not sending it)
	AlsoStartAfter                string // V2 with a continuation token: a start-after sent along with it (as SDK paginators do); the token wins
	RawToken                      string // V2: the continuation token exactly as the server handed it out (sent instead of encoding Marker)
}

type ListResp struct {
	Resp      Resp
	Keys      []string
	Prefixes  []string
	Truncated bool
	Next      string
	NextRaw   string // V2: NextContinuationToken as sent
}

func (s *Sess) List(q ListReq) ListResp {
	var ps []string
	if q.V2 {
		ps = append(ps, "list-type=2")
	}
	if q.Prefix != "" {
		ps = append(ps, "prefix="+queryEscape(q.Prefix))
	}
	if q.Delim != "" {
		ps = append(ps, "delimiter="+queryEscape(q.Delim))
	} else if q.EmptyDelim {
		ps = append(ps, "delimiter=")
	}
	if q.HasMarker {
		if !q.V2 {
			ps = append(ps, "marker="+queryEscape(q.Marker))
		} else if q.StartAfter {
			ps = append(ps, "start-after="+queryEscape(q.Marker))
		} else {
			if q.RawToken != "" {
				ps = append(ps, "continuation-token="+queryEscape(q.RawToken))
			} else {
				ps = append(ps, "continuation-token="+queryEscape(base64.URLEncoding.EncodeToString([]byte(q.Marker))))
			}
			if q.AlsoStartAfter != "" {
				ps = append(ps, "start-after="+queryEscape(q.AlsoStartAfter))
			}
		}
	}
	maxk := 1000
	if q.MaxKeys >= 0 {
		ps = append(ps, "max-keys="+strconv.Itoa(q.MaxKeys))
		maxk = q.MaxKeys
		if maxk > 1000 {
			maxk = 1000
		}
	}
	if s.listExtra != "" {
		ps = append(ps, s.listExtra)
	}
	path := "/" + pathEscape(q.Bucket)
	if len(ps) > 0 {
		path += "?" + strings.Join(ps, "&")
	}
	r := do(s.h, Req{Method: "GET", Path: path})
	var lx listXML
	var o obsT
	o.r = r
	out := ListResp{Resp: r}
	if r.Status == 200 {
		if err := xml.Unmarshal(r.Body, &lx); err == nil {
			for _, c := range lx.Contents {
				o.contents = append(o.contents, hs(c.Key)+":"+strconv.FormatInt(c.Size, 10)+":"+hs(c.ETag))
				out.Keys = append(out.Keys, c.Key)
			}
			for _, p := range lx.CommonPrefixes {
				o.names = append(o.names, p.Prefix)
				out.Prefixes = append(out.Prefixes, p.Prefix)
			}
			o.truncated = lx.IsTruncated
			out.Truncated = lx.IsTruncated
			if q.V2 {
				out.NextRaw = lx.NextToken
				if lx.NextToken != "" {
					if b, err := base64.URLEncoding.DecodeString(lx.NextToken); err == nil {
						o.next = string(b)
					} else {
						o.next = "!undecodable-token!"
					}
				}
			} else {
				o.next = lx.NextMarker
			}
			out.Next = o.next
		}
	}
	dl := "-"
	if q.Delim != "" {
		dl = hs(q.Delim)
	}
	s.emitOp("list", []string{hs(q.Bucket), hs(q.Prefix), dl, hs(q.Marker), boolField(q.HasMarker), strconv.Itoa(maxk), boolField(q.V2)}, o)
	return out
}
