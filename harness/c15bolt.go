package main

import (
	"crypto/md5"
	"fmt"
	"os"
	"path/filepath"
	"sort"
	"strings"
	"sync"
	"time"

	"github.com/johannesboyne/gofakes3/backend/s3bolt"
	bolt "go.etcd.io/bbolt"
)

// Crash points for the bolt backend. s3bolt asks its time source for the time inside every write
// (after the body has been read, before the object is committed; when a bucket is created). At that
// instant no transaction of the request is open and every earlier commit has been synced, so a copy
// of the database file taken there is what a kill -9 at that instant leaves on disk. A new backend on
// each copy has to show the state before the request or the state after it, entire: every write
// acknowledged earlier intact, the write in flight wholly there or wholly absent. (bbolt's own
// transaction atomicity is trusted; what this observes is a write that the backend spreads over
// more than one transaction.)
type snapClock struct {
	mu    sync.Mutex
	armed bool
	src   string
	dir   string
	taken []string
}

func (k *snapClock) Now() time.Time {
	k.mu.Lock()
	defer k.mu.Unlock()
	if k.armed {
		if bts, err := os.ReadFile(k.src); err == nil {
			dst := filepath.Join(k.dir, fmt.Sprintf("snap-%d.bolt", len(k.taken)))
			if os.WriteFile(dst, bts, 0600) == nil {
				k.taken = append(k.taken, dst)
			}
		}
	}
	return time.Now()
}
func (k *snapClock) Since(t time.Time) time.Duration { return time.Since(t) }

// everything a client can see of the store: buckets, listings, every key's body and stored headers
func c15BoltState(s *Sess, buckets, keys []string) string {
	var sb strings.Builder
	lb := do(s.h, Req{Method: "GET", Path: "/"})
	names := xmlAll(string(lb.Body), "Name")
	sort.Strings(names)
	fmt.Fprintf(&sb, "buckets=%d:%v;", lb.Status, names)
	for _, b := range buckets {
		l := do(s.h, Req{Method: "GET", Path: "/" + b})
		fmt.Fprintf(&sb, "list(%s)=%d:%v:%v:%v;", b, l.Status, xmlAll(string(l.Body), "Key"), xmlAll(string(l.Body), "ETag"), xmlAll(string(l.Body), "Size"))
		for _, k := range keys {
			g := do(s.h, Req{Method: "GET", Path: "/" + b + "/" + pathEscape(k)})
			hd := do(s.h, Req{Method: "HEAD", Path: "/" + b + "/" + pathEscape(k)})
			fmt.Fprintf(&sb, "%s/%s=%d:%d:%x:%s:%s|%d:%s;", b, k, g.Status, len(g.Body), md5.Sum(g.Body), g.Header.Get("ETag"), metaField(g.Header), hd.Status, metaField(hd.Header))
		}
	}
	return sb.String()
}

func c15BoltSnapshots(rng *Rng) {
	dir := newTmp("boltsnap")
	defer os.RemoveAll(dir)
	file := filepath.Join(dir, "db.bolt")
	db, err := bolt.Open(file, 0600, nil)
	if err != nil {
		return
	}
	clock := &snapClock{src: file, dir: dir}
	live := &Sess{prop: "c15", kind: "bolt", h: newServer(s3bolt.New(db, s3bolt.WithTimeSource(clock)))}
	b := singleBucketName
	buckets := []string{b, "bkb"}
	keys := []string{"small", "big", "dir/big2", "fresh", "fresh-big", "mp"}
	small, small2 := []byte("a small object"), []byte("another small one")
	big, big2, big3 := rng.Bytes(11000), rng.Bytes(11000), rng.Bytes(70000)
	mA := [][2]string{{"X-Amz-Meta-Color", "blue"}, {"Content-Type", "text/x-a"}}
	mB := [][2]string{{"X-Amz-Meta-Color", "red"}, {"X-Amz-Meta-Extra", "1"}}
	put := func(k string, body []byte, m [][2]string) func() Resp {
		return func() Resp { return do(live.h, Req{Method: "PUT", Path: "/" + b + "/" + k, Body: body, Header: m}) }
	}
	do(live.h, Req{Method: "PUT", Path: "/" + b})
	put("small", small, mA)()
	put("big", big, mA)()
	put("dir/big2", big2, mB)()
	type opT struct {
		name string
		run  func() Resp
	}
	ops := []opT{
		{"put-new-small", put("fresh", small2, mB)},
		{"put-new-big", put("fresh-big", big3, mA)},
		{"overwrite-small-with-small", put("small", small2, mB)},
		{"overwrite-small-with-big", put("small", big2, nil)},
		{"overwrite-big-with-big", put("big", big2, mB)},
		{"overwrite-big-with-bigger", put("big", big3, nil)},
		{"overwrite-big-with-small", put("dir/big2", small, mA)},
		{"copy-big-over-big", func() Resp {
			return do(live.h, Req{Method: "PUT", Path: "/" + b + "/dir/big2", Body: []byte{}, Header: [][2]string{{"X-Amz-Copy-Source", "/" + b + "/big"}}})
		}},
		{"complete-multipart-over-big", func() Resp {
			i := do(live.h, Req{Method: "POST", Path: "/" + b + "/big?uploads"})
			ids := xmlAll(string(i.Body), "UploadId")
			if len(ids) == 0 {
				return i
			}
			p := do(live.h, Req{Method: "PUT", Path: "/" + b + "/big?partNumber=1&uploadId=" + ids[0], Body: big})
			body := "<CompleteMultipartUpload><Part><PartNumber>1</PartNumber><ETag>" + p.Header.Get("ETag") + "</ETag></Part></CompleteMultipartUpload>"
			return do(live.h, Req{Method: "POST", Path: "/" + b + "/big?uploadId=" + ids[0], Body: []byte(body)})
		}},
		{"delete-big", func() Resp { return do(live.h, Req{Method: "DELETE", Path: "/" + b + "/big"}) }},
		{"create-bucket", func() Resp { return do(live.h, Req{Method: "PUT", Path: "/bkb"}) }},
	}
	for _, op := range ops {
		before := c15BoltState(live, buckets, keys)
		clock.mu.Lock()
		clock.armed, clock.taken = true, nil
		clock.mu.Unlock()
		r := op.run()
		clock.mu.Lock()
		clock.armed = false
		snaps := clock.taken
		clock.mu.Unlock()
		after := c15BoltState(live, buckets, keys)
		if r.Status >= 300 {
			emit("c15", "BAD", hs(fmt.Sprintf("S:bolt-crash-point-workload-refused %s answers %d", op.name, r.Status)))
			continue
		}
		for si, snap := range snaps {
			sdb, err := bolt.Open(snap, 0600, &bolt.Options{Timeout: 2 * time.Second})
			if err != nil {
				emit("c15", "BAD", hs(fmt.Sprintf("S:store-does-not-open-after-a-kill bolt: %s killed at the instant of its time stamp #%d: the database does not open: %v", op.name, si+1, err)))
				continue
			}
			dead := &Sess{prop: "c15", kind: "bolt", h: newServer(s3bolt.New(sdb))}
			got := c15BoltState(dead, buckets, keys)
			sdb.Close()
			os.Remove(snap)
			msg := fmt.Sprintf("bolt: %s killed at the instant of its time stamp #%d (of %d)", op.name, si+1, len(snaps))
			switch got {
			case before:
				emit("c15", "GOOD", hs(msg+": the restarted store shows the state before the request"))
			case after:
				emit("c15", "GOOD", hs(msg+": the restarted store shows the state after the request"))
			default:
				bs, as := map[string]bool{}, map[string]bool{}
				for _, x := range strings.Split(before, ";") {
					bs[x] = true
				}
				for _, x := range strings.Split(after, ";") {
					as[x] = true
				}
				var odd []string
				for _, x := range strings.Split(got, ";") {
					if !bs[x] || !as[x] {
						w := "differs from both"
						if bs[x] {
							w = "as before"
						} else if as[x] {
							w = "as after"
						}
						odd = append(odd, truncStr(x, 160)+" ("+w+")")
					}
				}
				emit("c15", "BAD", hs("S:neither-the-state-before-nor-after-the-write-in-flight "+msg+": the restarted store shows neither the state before the request nor the state after it: "+strings.Join(odd, "; ")))
			}
			nontrivial("bolt-snapshot|" + op.name + fmt.Sprint(si))
		}
	}
	db.Close()
}

func truncStr(s string, n int) string {
	if len(s) > n {
		return s[:n] + "..."
	}
	return s
}
