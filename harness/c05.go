package main

import (
	"fmt"
)

func init() { runners["c05"] = runC05 }

// version references: "the i-th version id the server has issued so far" (or a bogus one)
func (s *Sess) vidRef(i int) string {
	if i < 0 {
		return "3/bogus-version-id"
	}
	if i < len(s.vids) {
		return s.vids[i]
	}
	return ""
}

func c05RandomOp(s *Sess, b string, keys []string, rng *Rng) {
	k := keys[rng.Intn(len(keys))]
	pickVid := func() string {
		if len(s.vids) == 0 || rng.Intn(12) == 0 {
			return "3/bogus-version-id"
		}
		// bias towards recent ids
		if rng.Bool() {
			return s.vids[len(s.vids)-1-rng.Intn(min(len(s.vids), 3))]
		}
		return s.vids[rng.Intn(len(s.vids))]
	}
	switch w := rng.Intn(100); {
	case w < 25:
		body := []byte(fmt.Sprintf("v%d", s.nops))
		var m []KV
		if rng.Intn(3) == 0 {
			m = []KV{{"X-Amz-Meta-N", fmt.Sprint(s.nops)}}
		}
		s.Put(b, k, body, m)
	case w < 37:
		s.Delete(b, k)
	case w < 52:
		s.DeleteVersion(b, k, pickVid())
	case w < 57:
		var ks []KV
		for i := 0; i < 1+rng.Intn(2); i++ {
			kv := KV{K: keys[rng.Intn(len(keys))]}
			if rng.Bool() {
				kv.V = pickVid()
			}
			ks = append(ks, kv)
		}
		s.MultiDelete(b, ks)
	case w < 67:
		s.Get(b, k, "")
	case w < 71:
		// a copy is an upload like any other: a new version, the earlier ones stay what they are (onto itself
		// with new metadata — the way to change metadata in place —, with and without the REPLACE directive)
		m := []KV{{"X-Amz-Meta-N", fmt.Sprintf("copy-%d", s.nops)}}
		if rng.Bool() {
			m = append(m, KV{"X-Amz-Metadata-Directive", "REPLACE"})
		}
		if rng.Intn(3) == 0 {
			m = nil
		}
		dst := k
		if rng.Intn(3) == 0 {
			dst = keys[rng.Intn(len(keys))]
		}
		s.CopyWith(b, k, b, dst, m)
	case w < 80:
		s.Get(b, k, pickVid())
	case w < 88:
		s.Head(b, k, pickVid())
	case w < 91:
		s.Head(b, k, "")
	case w < 93:
		// a versioning document whose status is not one of the two words S3 knows (a stem, another word, junk) is
		// refused and changes nothing: an answer of 200 would have to mean something
		before := do(s.h, Req{Method: "GET", Path: "/" + b + "?versioning"})
		st := []string{"Enable", "Suspend", "On", "true", "Disabled", "Enabledx", "Enabled Suspended", "1"}[rng.Intn(8)]
		r := do(s.h, Req{Method: "PUT", Path: "/" + b + "?versioning", Body: []byte("<VersioningConfiguration><Status>" + st + "</Status></VersioningConfiguration>")})
		after := do(s.h, Req{Method: "GET", Path: "/" + b + "?versioning"})
		msg := fmt.Sprintf("PUT ?versioning with <Status>%s</Status> answers %d %s; GET ?versioning before: %q, after: %q", st, r.Status, errCode(r.Body), xmlAll(string(before.Body), "Status"), xmlAll(string(after.Body), "Status"))
		if r.Status >= 400 && r.Status < 500 && string(before.Body) == string(after.Body) {
			emit(s.prop, "GOOD", hs(msg))
		} else {
			emit(s.prop, "BAD", hs("S:versioning-state-changed-by-a-document-that-names-no-state "+msg))
		}
	case w < 96:
		s.SetVersioning(b, rng.Intn(3) > 0)
	default:
		s.List(ListReq{Bucket: b, MaxKeys: -1})
	}
}

func c05Probe(s *Sess, b string, keys []string) {
	for _, k := range keys {
		s.Get(b, k, "")
	}
	for _, v := range s.vids {
		for _, k := range keys {
			s.Get(b, k, v)
			s.Head(b, k, v)
		}
	}
	s.List(ListReq{Bucket: b, MaxKeys: -1})
}

func runC05(tier string, seed uint64) {
	rng := NewRng(seed)
	b := singleBucketName
	// (1) exhaustive short sequences over one key (plus a second key for frame effects)
	type sym func(s *Sess)
	alphabet := []sym{
		func(s *Sess) { s.Put(b, "k", []byte(fmt.Sprintf("v%d", s.nops)), nil) },
		func(s *Sess) { s.Delete(b, "k") },
		func(s *Sess) { s.DeleteVersion(b, "k", s.vidRef(0)) },
		func(s *Sess) { s.DeleteVersion(b, "k", s.vidRef(1)) },
		func(s *Sess) { s.DeleteVersion(b, "k", s.vidRef(len(s.vids)-1)) },
		func(s *Sess) { s.SetVersioning(b, true) },
		func(s *Sess) { s.SetVersioning(b, false) },
		func(s *Sess) { s.Get(b, "k", "") },
		func(s *Sess) { s.Head(b, "k", s.vidRef(0)) },
		func(s *Sess) { s.MultiDelete(b, []KV{{K: "k", V: s.vidRef(len(s.vids) - 1)}, {K: "j"}}) },
		func(s *Sess) { s.Put(b, "j", []byte("J"), nil) },
	}
	depth := 4
	if tier == "thorough" {
		depth = 5
	}
	idx := make([]int, depth)
	for {
		s := newSess("c05", "mem", SessOpts{})
		s.MkBucket(b)
		// half of the space starts versioned (first symbol decides otherwise)
		s.SetVersioning(b, true)
		s.Put(b, "k", []byte("v-first"), nil)
		for _, i := range idx {
			alphabet[i](s)
		}
		c05Probe(s, b, []string{"k", "j"})
		s.end()
		nontrivial(fmt.Sprint("exh", idx))
		j := depth - 1
		for j >= 0 {
			idx[j]++
			if idx[j] < len(alphabet) {
				break
			}
			idx[j] = 0
			j--
		}
		if j < 0 {
			break
		}
	}
	// (2) random histories starting never-versioned
	nseq, length := 150, 30
	if tier == "thorough" {
		nseq, length = 3000, 40
	}
	for i := 0; i < nseq; i++ {
		s := newSess("c05", "mem", SessOpts{})
		s.MkBucket(b)
		keys := []string{"k", "j", "p/q"}
		if rng.Intn(3) > 0 {
			s.SetVersioning(b, true)
		}
		for j := 0; j < length; j++ {
			c05RandomOp(s, b, keys, rng)
		}
		c05Probe(s, b, keys)
		s.end()
		nontrivial(fmt.Sprint("rnd", i))
	}
	sample("exhaustive: Enabled; put k; then every sequence of length 4 over {put k, delete k, delete-version k (1st/2nd/newest id), enable, suspend, get k, head k?versionId, multi-delete(k newest id + j), put j}; probe: get every key plain and with every id issued, head likewise, list")
	sample("random: 30 ops over keys k, j, p/q starting never-versioned: put 25 delete 12 delete-version 15 multi-delete 5 get 10 get-version 13 head-version 8 set-versioning 5")
}

func min(a, b int) int {
	if a < b {
		return a
	}
	return b
}
