package main

import (
	"bufio"
	"bytes"
	"fmt"
	"io"
	"net"
	"net/http"
	"net/url"
	"os"
	"os/exec"
	"path/filepath"
	"regexp"
	"strings"
	"syscall"
	"time"
)

// serverBinary is the gofakes3 command built from /repo/cmd/gofakes3 (set by -server)
var serverBinary string

// extServer runs the real server binary on a scratch directory; requests are forwarded to it
// over TCP. Restarting it (after SIGKILL — the command has no other way to stop) is the
// "new process on the same storage" of C15.
type extServer struct {
	kind string // boltbin | fsbin | sfsbin
	dir  string
	cmd  *exec.Cmd
	addr string
	cl   *http.Client
	logs *bytes.Buffer
}

var portRe = regexp.MustCompile(`using port: (\d+)`)

func (e *extServer) args() []string {
	a := []string{"-host", "127.0.0.1:0", "-time", fixedTime.Format(time.RFC3339)}
	switch e.kind {
	case "boltbin":
		a = append(a, "-backend", "bolt", "-bolt.db", filepath.Join(e.dir, "db.bolt"))
	case "fsbin":
		a = append(a, "-backend", "fs", "-fs.create", "-fs.path", filepath.Join(e.dir, "data"), "-fs.meta", filepath.Join(e.dir, "meta"))
	case "sfsbin":
		a = append(a, "-backend", "directfs", "-directfs.create", "-directfs.bucket", singleBucketName,
			"-directfs.path", filepath.Join(e.dir, "data"), "-directfs.meta", filepath.Join(e.dir, "meta"))
	}
	return a
}

func (e *extServer) start() error {
	if serverBinary == "" {
		return fmt.Errorf("no -server binary given")
	}
	cmd := exec.Command(serverBinary, e.args()...)
	cmd.Dir = e.dir
	pr, pw, err := os.Pipe()
	if err != nil {
		return err
	}
	cmd.Stderr = pw
	cmd.Stdout = pw
	cmd.SysProcAttr = &syscall.SysProcAttr{Pdeathsig: syscall.SIGKILL}
	if err := cmd.Start(); err != nil {
		pw.Close()
		pr.Close()
		return err
	}
	pw.Close()
	e.cmd = cmd
	e.logs = &bytes.Buffer{}
	found := make(chan string, 1)
	go func() {
		sc := bufio.NewScanner(pr)
		sc.Buffer(make([]byte, 1<<16), 1<<20)
		sent := false
		n := 0
		for sc.Scan() {
			line := sc.Text()
			if n < 200 {
				e.logs.WriteString(line + "\n")
				n++
			}
			if m := portRe.FindStringSubmatch(line); m != nil && !sent {
				sent = true
				found <- m[1]
			}
		}
		pr.Close()
		if !sent {
			found <- ""
		}
	}()
	select {
	case p := <-found:
		if p == "" {
			cmd.Wait()
			return fmt.Errorf("server exited during start: %s", strings.TrimSpace(e.logs.String()))
		}
		e.addr = "127.0.0.1:" + p
	case <-time.After(10 * time.Second):
		e.kill()
		return fmt.Errorf("server did not report its port within 10s")
	}
	e.cl = &http.Client{Transport: &http.Transport{DisableCompression: true, DisableKeepAlives: false, MaxIdleConnsPerHost: 4},
		Timeout: 30 * time.Second, CheckRedirect: func(*http.Request, []*http.Request) error { return http.ErrUseLastResponse }}
	// wait until it accepts connections
	for i := 0; i < 100; i++ {
		c, err := net.DialTimeout("tcp", e.addr, time.Second)
		if err == nil {
			c.Close()
			return nil
		}
		time.Sleep(10 * time.Millisecond)
	}
	return fmt.Errorf("server does not accept connections")
}

func (e *extServer) kill() {
	if e.cmd != nil && e.cmd.Process != nil {
		e.cmd.Process.Signal(syscall.SIGKILL)
		e.cmd.Wait()
	}
	if e.cl != nil {
		e.cl.CloseIdleConnections()
	}
	e.cmd = nil
}

// ServeHTTP forwards the request as it is (method, escaped path, query, headers, body) and
// copies the answer back; a transport failure is reported as status 599
func (e *extServer) ServeHTTP(w http.ResponseWriter, r *http.Request) {
	u := &url.URL{Scheme: "http", Host: e.addr, Path: r.URL.Path, RawPath: r.URL.RawPath, RawQuery: r.URL.RawQuery}
	var body io.Reader
	if r.Body != nil && r.Body != http.NoBody {
		body = r.Body
	}
	rq, err := http.NewRequest(r.Method, u.String(), body)
	if err != nil {
		w.WriteHeader(599)
		return
	}
	rq.URL = u
	for k, v := range r.Header {
		rq.Header[k] = v
	}
	rq.ContentLength = r.ContentLength
	if r.ContentLength == 0 && body != nil {
		rq.Body = http.NoBody
	}
	if r.Host != "" && r.Host != "localhost" {
		rq.Host = r.Host
	}
	rs, err := e.cl.Do(rq)
	if err != nil {
		w.Header().Set("X-Verif-Transport-Error", err.Error())
		w.WriteHeader(599)
		return
	}
	defer rs.Body.Close()
	data, rerr := io.ReadAll(rs.Body)
	for k, v := range rs.Header {
		w.Header()[k] = v
	}
	if rerr != nil {
		w.Header().Set("X-Verif-Transport-Error", rerr.Error())
		w.WriteHeader(599)
		return
	}
	w.WriteHeader(rs.StatusCode)
	w.Write(data)
}

func isExt(kind string) bool { return strings.HasSuffix(kind, "bin") }

func newExtStore(kind string) *Store {
	d := newTmp(kind)
	e := &extServer{kind: kind, dir: d}
	if err := e.start(); err != nil {
		panic("cannot start the server binary: " + err.Error())
	}
	st := &Store{Kind: kind, dir: d, Ext: e}
	st.cleanup = func() { e.kill(); os.RemoveAll(d) }
	st.reopen = func() (gofakes3Backend, error) {
		e.kill()
		return nil, e.start()
	}
	return st
}
