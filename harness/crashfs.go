package main

import (
	"fmt"
	"os"
	"time"

	"github.com/spf13/afero"
)

// crashCtl counts the state-changing file-system calls a backend makes and "kills the process"
// at a chosen one: the call does not happen, the request unwinds with a panic, and from then on
// the wrapper is inert (nothing the dying request does in its deferred functions reaches the
// disk). What is on the underlying file system at that moment is what a SIGKILL at that point
// leaves behind (the page cache survives the process).
type crashCtl struct {
	count   int
	crashAt int  // 0 = disarmed
	partial bool // crash in the middle of a Write: half of the buffer reaches the file
	dead    bool
	log     []string
}

type crashSentinel struct{ at string }

func (c *crashCtl) tick(name string) {
	if c.dead {
		panic(crashSentinel{"after-death:" + name})
	}
	c.count++
	c.log = append(c.log, name)
	if c.crashAt > 0 && c.count == c.crashAt && !c.partial {
		c.dead = true
		panic(crashSentinel{name})
	}
}

type crashFs struct {
	inner afero.Fs
	ctl   *crashCtl
	tag   string
}

func (f *crashFs) Name() string { return "crashFs" }
func (f *crashFs) Create(name string) (afero.File, error) {
	f.ctl.tick(f.tag + ":Create")
	fl, err := f.inner.Create(name)
	return f.wrap(fl, err)
}
func (f *crashFs) wrap(fl afero.File, err error) (afero.File, error) {
	if err != nil || fl == nil {
		return fl, err
	}
	return &crashFile{File: fl, fs: f}, nil
}
func (f *crashFs) Mkdir(name string, perm os.FileMode) error {
	f.ctl.tick(f.tag + ":Mkdir")
	return f.inner.Mkdir(name, perm)
}
func (f *crashFs) MkdirAll(p string, perm os.FileMode) error {
	// creating nothing is not a state change
	if st, err := f.inner.Stat(p); err == nil && st.IsDir() {
		return nil
	}
	f.ctl.tick(f.tag + ":MkdirAll")
	return f.inner.MkdirAll(p, perm)
}
func (f *crashFs) Open(name string) (afero.File, error) {
	if f.ctl.dead {
		panic(crashSentinel{"after-death:Open"})
	}
	fl, err := f.inner.Open(name)
	return f.wrap(fl, err)
}
func (f *crashFs) OpenFile(name string, flag int, perm os.FileMode) (afero.File, error) {
	if flag&(os.O_CREATE|os.O_TRUNC) != 0 {
		f.ctl.tick(f.tag + ":OpenFile(create/trunc)")
	} else if f.ctl.dead {
		panic(crashSentinel{"after-death:OpenFile"})
	}
	fl, err := f.inner.OpenFile(name, flag, perm)
	return f.wrap(fl, err)
}
func (f *crashFs) Remove(name string) error {
	st, err := f.inner.Stat(name)
	if err != nil {
		return f.inner.Remove(name) // nothing to remove: not a state change
	}
	if st.IsDir() {
		f.ctl.tick(f.tag + ":Rmdir") // pruning an empty directory: no object changes
		return f.inner.Remove(name)
	}
	f.ctl.tick(f.tag + ":Remove")
	return f.inner.Remove(name)
}
func (f *crashFs) RemoveAll(p string) error {
	if _, err := f.inner.Stat(p); err != nil {
		return f.inner.RemoveAll(p)
	}
	f.ctl.tick(f.tag + ":RemoveAll")
	return f.inner.RemoveAll(p)
}
func (f *crashFs) Rename(o, n string) error {
	f.ctl.tick(f.tag + ":Rename")
	return f.inner.Rename(o, n)
}
func (f *crashFs) Stat(name string) (os.FileInfo, error) {
	if f.ctl.dead {
		panic(crashSentinel{"after-death:Stat"})
	}
	return f.inner.Stat(name)
}
func (f *crashFs) Chmod(name string, mode os.FileMode) error {
	f.ctl.tick(f.tag + ":Chmod")
	return f.inner.Chmod(name, mode)
}
func (f *crashFs) Chtimes(name string, a, m time.Time) error {
	f.ctl.tick(f.tag + ":Chtimes")
	return f.inner.Chtimes(name, a, m)
}

type crashFile struct {
	afero.File
	fs *crashFs
}

func (c *crashFile) Write(p []byte) (int, error) {
	ctl := c.fs.ctl
	if ctl.dead {
		return 0, fmt.Errorf("process is dead")
	}
	if len(p) == 0 {
		return c.File.Write(p)
	}
	if ctl.partial && ctl.crashAt > 0 && ctl.count+1 == ctl.crashAt {
		ctl.count++
		ctl.log = append(ctl.log, c.fs.tag+":Write(partial)")
		c.File.Write(p[:len(p)/2])
		ctl.dead = true
		panic(crashSentinel{c.fs.tag + ":Write(partial)"})
	}
	ctl.tick(c.fs.tag + ":Write")
	return c.File.Write(p)
}
func (c *crashFile) WriteString(s string) (int, error) { return c.Write([]byte(s)) }
func (c *crashFile) WriteAt(p []byte, off int64) (int, error) {
	c.fs.ctl.tick(c.fs.tag + ":WriteAt")
	return c.File.WriteAt(p, off)
}
func (c *crashFile) Truncate(n int64) error {
	c.fs.ctl.tick(c.fs.tag + ":Truncate")
	return c.File.Truncate(n)
}
func (c *crashFile) Close() error {
	// closing is not a state change, and a dead process's descriptors are closed by the kernel
	return c.File.Close()
}
