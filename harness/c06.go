package main

import (
	"encoding/xml"
	"fmt"
	"sort"
	"strconv"
	"strings"
	"time"
)

func init() { runners["c06"] = runC06; runners["c14"] = runC14 }

func (s *Sess) Initiate(b, k string, m []KV) string {
	var hdr [][2]string
	for _, kv := range m {
		hdr = append(hdr, [2]string{kv.K, kv.V})
	}
	r := do(s.h, Req{Method: "POST", Path: "/" + pathEscape(b) + "/" + pathEscape(k) + "?uploads", Body: []byte{}, Header: hdr})
	id := ""
	if ids := xmlAll(string(r.Body), "UploadId"); len(ids) > 0 {
		id = ids[0]
	}
	s.emitOp("init", []string{hs(b), hs(k), metaArg(m)}, obsT{r: r, next: id})
	return id
}

var partUploads int

func (s *Sess) UploadPart(b, k, uid string, pn int, body []byte) string {
	partUploads++
	var hdr [][2]string
	if partUploads%5 == 0 {
		// (what curl --data-binary sends along; the body of a part is a body whatever its Content-Type says)
		hdr = [][2]string{{"Content-Type", "application/x-www-form-urlencoded"}}
	}
	r := do(s.h, Req{Method: "PUT", Path: "/" + pathEscape(b) + "/" + pathEscape(k) + "?uploadId=" + queryEscape(uid) + "&partNumber=" + strconv.Itoa(pn), Body: body, Header: hdr})
	s.emitOp("part", []string{hs(b), hs(k), hs(uid), strconv.Itoa(pn), hx(body)}, obsT{r: r})
	return r.Header.Get("ETag")
}

type CPart struct {
	N    int
	ETag string
}

func (s *Sess) Complete(b, k, uid string, parts []CPart) Resp {
	var sb strings.Builder
	sb.WriteString("<CompleteMultipartUpload>")
	var arg []string
	for _, p := range parts {
		sb.WriteString("<Part><PartNumber>" + strconv.Itoa(p.N) + "</PartNumber><ETag>" + xmlEsc(p.ETag) + "</ETag></Part>")
		arg = append(arg, strconv.Itoa(p.N)+":"+hs(p.ETag))
	}
	sb.WriteString("</CompleteMultipartUpload>")
	r := do(s.h, Req{Method: "POST", Path: "/" + pathEscape(b) + "/" + pathEscape(k) + "?uploadId=" + queryEscape(uid), Body: []byte(sb.String())})
	et := ""
	if r.Status == 200 {
		if e := xmlAll(string(r.Body), "ETag"); len(e) > 0 {
			et = e[0]
		}
	}
	a := "-"
	if len(arg) > 0 {
		a = strings.Join(arg, ",")
	}
	s.emitOp("done", []string{hs(b), hs(k), hs(uid), a}, obsT{r: r, etag: et})
	return r
}

func (s *Sess) Abort(b, k, uid string) Resp {
	r := do(s.h, Req{Method: "DELETE", Path: "/" + pathEscape(b) + "/" + pathEscape(k) + "?uploadId=" + queryEscape(uid)})
	s.emitOp("abort", []string{hs(b), hs(k), hs(uid)}, obsT{r: r})
	return r
}

type partsXML struct {
	IsTruncated bool `xml:"IsTruncated"`
	Next        int  `xml:"NextPartNumberMarker"`
	Parts       []struct {
		PartNumber int    `xml:"PartNumber"`
		ETag       string `xml:"ETag"`
		Size       int64  `xml:"Size"`
	} `xml:"Part"`
}

type PartsResp struct {
	Resp      Resp
	Nums      []string
	ETags     []string
	Sizes     []int64
	Truncated bool
	Next      int
}

// marker/limit < 0: parameter absent
func (s *Sess) ListParts(b, k, uid string, marker, limit int) PartsResp {
	q := "?uploadId=" + queryEscape(uid)
	m, l := 0, 1000
	if marker >= 0 {
		q += "&part-number-marker=" + strconv.Itoa(marker)
		m = marker
	}
	if limit >= 0 {
		q += "&max-parts=" + strconv.Itoa(limit)
		l = limit
		if l > 1000 {
			l = 1000
		}
	}
	r := do(s.h, Req{Method: "GET", Path: "/" + pathEscape(b) + "/" + pathEscape(k) + q})
	var px partsXML
	o := obsT{r: r}
	out := PartsResp{Resp: r}
	if r.Status == 200 && xml.Unmarshal(r.Body, &px) == nil {
		for _, p := range px.Parts {
			o.contents = append(o.contents, hs(strconv.Itoa(p.PartNumber))+":"+strconv.FormatInt(p.Size, 10)+":"+hs(p.ETag))
			out.Nums = append(out.Nums, strconv.Itoa(p.PartNumber))
			out.ETags = append(out.ETags, p.ETag)
			out.Sizes = append(out.Sizes, p.Size)
		}
		o.truncated = px.IsTruncated
		o.next = strconv.Itoa(px.Next)
		out.Truncated, out.Next = px.IsTruncated, px.Next
	}
	s.emitOp("lsp", []string{hs(b), hs(k), hs(uid), strconv.Itoa(m), strconv.Itoa(l)}, o)
	return out
}

type uploadsXML struct {
	IsTruncated    bool   `xml:"IsTruncated"`
	NextKeyMarker  string `xml:"NextKeyMarker"`
	NextIDMarker   string `xml:"NextUploadIdMarker"`
	CommonPrefixes []struct {
		Prefix string `xml:"Prefix"`
	} `xml:"CommonPrefixes"`
	Uploads []struct {
		Key      string `xml:"Key"`
		UploadID string `xml:"UploadId"`
	} `xml:"Upload"`
}

type UploadsResp struct {
	Resp      Resp
	Entries   []string
	Prefixes  []string
	Truncated bool
	NextKey   string
	NextID    string
}

func (s *Sess) ListUploads(b, prefix, delim, keyMarker, idMarker string, limit int) UploadsResp {
	ps := []string{"uploads"}
	if prefix != "" {
		ps = append(ps, "prefix="+queryEscape(prefix))
	}
	if delim != "" {
		ps = append(ps, "delimiter="+queryEscape(delim))
	}
	if keyMarker != "" {
		ps = append(ps, "key-marker="+queryEscape(keyMarker))
		if idMarker != "" {
			ps = append(ps, "upload-id-marker="+queryEscape(idMarker))
		}
	} else {
		idMarker = ""
	}
	l := 1000
	if limit >= 0 {
		ps = append(ps, "max-uploads="+strconv.Itoa(limit))
		l = limit
		if l == 0 || l > 1000 {
			l = 1000
		}
	}
	r := do(s.h, Req{Method: "GET", Path: "/" + pathEscape(b) + "?" + strings.Join(ps, "&")})
	var ux uploadsXML
	o := obsT{r: r}
	out := UploadsResp{Resp: r}
	if r.Status == 200 && xml.Unmarshal(r.Body, &ux) == nil {
		for _, u := range ux.Uploads {
			o.contents = append(o.contents, hs(u.Key)+":0:"+hs(u.UploadID))
			out.Entries = append(out.Entries, u.Key+"\x00"+u.UploadID)
		}
		for _, p := range ux.CommonPrefixes {
			o.names = append(o.names, p.Prefix)
			out.Prefixes = append(out.Prefixes, p.Prefix)
		}
		o.truncated = ux.IsTruncated
		o.next = ux.NextKeyMarker
		out.Truncated, out.NextKey, out.NextID = ux.IsTruncated, ux.NextKeyMarker, ux.NextIDMarker
	}
	dl := "-"
	if delim != "" {
		dl = hs(delim)
	}
	// the upload-id marker travels in the version-id observation slot
	r.Header.Set("x-amz-version-id", ux.NextIDMarker)
	o.r = r
	s.emitOpRaw("lsu", []string{hs(b), hs(prefix), dl, hs(keyMarker), hs(idMarker), strconv.Itoa(l)}, o)
	return out
}

// ---------------------------------------------------------------- C06

type upl struct {
	key   string
	id    string
	etags map[int]string
}

func c06Body(rng *Rng, tag int) []byte {
	n := 1 + rng.Intn(6)
	b := make([]byte, n)
	for i := range b {
		b[i] = byte('A' + (tag+i)%26)
	}
	return b
}

// c06BackendRefusal: a complete request that passes the uploader's own checks and is then refused
// by the backend (fs backends: the key lies below an object, or is a directory) is a rejected
// complete like any other: no object, and the pending upload stays listed with its parts
func c06BackendRefusal(prop, kind string) {
	s := newSess(prop, kind, SessOpts{})
	emit(prop, "NOMODEL")
	b := singleBucketName
	if !isSingle(kind) {
		s.MkBucket(b)
	}
	verdict := func(ok bool, what string) {
		if ok {
			emit(prop, "GOOD", hs(what))
		} else {
			emit(prop, "BAD", hs(what))
		}
	}
	for _, sc := range [][2]string{{"blk", "blk/obj"}, {"tree/leaf", "tree"}} {
		if r := s.Put(b, sc[0], []byte("in the way"), nil); r.Status != 200 {
			continue
		}
		id := s.Initiate(b, sc[1], []KV{{"X-Amz-Meta-Up", "1"}})
		if id == "" {
			continue
		}
		et := s.UploadPart(b, sc[1], id, 1, []byte("part one"))
		r := s.Complete(b, sc[1], id, []CPart{{1, et}})
		if r.Status == 200 {
			continue // this backend stores both keys; nothing to check
		}
		nontrivial(kind + "|backend-refuses-complete|" + sc[1])
		lp := s.ListParts(b, sc[1], id, -1, -1)
		verdict(lp.Resp.Status == 200 && len(lp.Nums) == 1 && lp.Nums[0] == "1" && lp.Sizes[0] == int64(len("part one")) && lp.ETags[0] == et,
			"after a complete refused by the backend ("+kind+", key "+sc[1]+") the pending upload keeps its parts, sizes and ETags: list-parts answers "+fmt.Sprint(lp.Resp.Status, lp.Nums, lp.Sizes, lp.ETags))
		lu := s.ListUploads(b, "", "", "", "", -1)
		found := false
		for _, e := range lu.Entries {
			if strings.Contains(e, id) {
				found = true
			}
		}
		verdict(found, "after a complete refused by the backend the upload is still listed by ListMultipartUploads: "+fmt.Sprint(lu.Entries))
		g := do(s.h, Req{Method: "GET", Path: "/" + b + "/" + pathEscape(sc[0])})
		verdict(g.Status == 200 && string(g.Body) == "in the way", "the object in the way is untouched")
		if sc[0] == "blk" {
			// ... and once the obstacle is gone the same request completes the upload: the object is the parts' bytes
			s.Delete(b, sc[0])
			r2 := s.Complete(b, sc[1], id, []CPart{{1, et}})
			g2 := do(s.h, Req{Method: "GET", Path: "/" + b + "/" + pathEscape(sc[1])})
			verdict(r2.Status == 200 && g2.Status == 200 && string(g2.Body) == "part one", fmt.Sprintf("the complete refused by the backend succeeds when repeated after the object in the way is deleted (%d) and the object is the uploaded part: GET answers %d %q", r2.Status, g2.Status, truncate(g2.Body, 40)))
			continue
		}
		ab := s.Abort(b, sc[1], id)
		verdict(ab.Status == 204, "and the upload can still be aborted: "+fmt.Sprint(ab.Status))
	}
	// the same on every backend: the bucket is deleted under the pending upload (so the backend refuses
	// the object) and created again; the repeated complete stores the parts' bytes
	if !isSingle(kind) {
		nb := "bkrefuse"
		s.MkBucket(nb)
		id := s.Initiate(nb, "k", nil)
		et := s.UploadPart(nb, "k", id, 1, []byte("part one"))
		et2 := s.UploadPart(nb, "k", id, 2, []byte("part two"))
		s.RmBucket(nb)
		r := s.Complete(nb, "k", id, []CPart{{1, et}, {2, et2}})
		s.MkBucket(nb)
		if r.Status >= 400 {
			lp := s.ListParts(nb, "k", id, -1, -1)
			if lp.Resp.Status == 200 {
				verdict(len(lp.Nums) == 2 && lp.Sizes[0] == 8 && lp.Sizes[1] == 8, "a complete refused because the bucket was gone leaves the parts as they were: list-parts answers "+fmt.Sprint(lp.Nums, lp.Sizes))
				r2 := s.Complete(nb, "k", id, []CPart{{1, et}, {2, et2}})
				g2 := do(s.h, Req{Method: "GET", Path: "/" + nb + "/k"})
				verdict(r2.Status >= 400 || (g2.Status == 200 && string(g2.Body) == "part onepart two"), fmt.Sprintf("repeated after the bucket exists again the complete answers %d and GET %d %q", r2.Status, g2.Status, truncate(g2.Body, 40)))
			}
		}
	}
	s.end()
}

// c06ManyParts: an upload of more parts than one ListParts page holds (the limit on parts is
// 10000, the page size 1000), completed with all of them
func c06ManyParts(kind string, n int) {
	s := newSess("c06", kind, SessOpts{})
	b := singleBucketName
	if !isSingle(kind) {
		s.MkBucket(b)
	}
	id := s.Initiate(b, "many", []KV{{"X-Amz-Meta-Parts", strconv.Itoa(n)}})
	var parts []CPart
	for pn := 1; pn <= n; pn++ {
		et := s.UploadPart(b, "many", id, pn, []byte{byte('a' + pn%26)})
		parts = append(parts, CPart{pn, et})
	}
	s.ListParts(b, "many", id, -1, -1)
	s.ListParts(b, "many", id, 1000, 5)
	s.Complete(b, "many", id, parts)
	s.Get(b, "many", "")
	s.ListUploads(b, "", "", "", "", -1)
	nontrivial(fmt.Sprint(kind, "many-parts", n))
	s.end()
}

func runC06(tier string, seed uint64) {
	rng := NewRng(seed)
	c06ManyParts("mem", 1001)
	if tier == "thorough" {
		c06ManyParts("bolt", 2500)
	}
	for _, kind := range allKinds {
		c06BackendRefusal("c06", kind)
		c06CompleteOverlap(kind)
		c06EmptyUploadID(kind)
		mpSlowPart("c06", kind) // a part upload in flight while its upload is completed
	}
	nseq, length := 25, 30
	if tier == "thorough" {
		nseq, length = 400, 40
	}
	partNums := []int{1, 2, 3, 7, 9999, 10000, 10001, 0, -1, 5}
	for _, kind := range allKinds {
		for i := 0; i < nseq; i++ {
			s := newSess("c06", kind, SessOpts{})
			b := singleBucketName
			if !isSingle(kind) {
				s.MkBucket(b)
			}
			keys := []string{"obj", "dir/obj2"}
			switch i % 4 {
			case 2: // a '%' that is no escape, a blank: nothing about a key may make a complete fail half way
				keys = []string{"50%off", "sales/growth 100%.csv"}
			case 3:
				keys = []string{"a%zz", "p%/q%2"}
			}
			var ups []*upl
			pick := func() *upl {
				if len(ups) == 0 || rng.Intn(15) == 0 {
					return &upl{key: keys[rng.Intn(2)], id: "424242", etags: map[int]string{}}
				}
				u := ups[rng.Intn(len(ups))]
				if rng.Intn(10) == 0 {
					// another spelling of a live upload id (a leading zero, a sign, a blank, a fraction) is
					// another string: it names no upload, and nothing changes
					sp := []string{"0" + u.id, "+" + u.id, " " + u.id, u.id + " ", "00" + u.id, u.id + ".0", "-0" + u.id}
					return &upl{key: u.key, id: sp[rng.Intn(len(sp))], etags: u.etags}
				}
				if rng.Intn(8) == 0 {
					// a live upload id addressed through the other key: NoSuchUpload, and nothing changes
					other := keys[0]
					if u.key == keys[0] {
						other = keys[1]
					}
					return &upl{key: other, id: u.id, etags: u.etags}
				}
				return u
			}
			for j := 0; j < length; j++ {
				switch w := rng.Intn(100); {
				case w < 12 || len(ups) == 0:
					k := keys[rng.Intn(2)]
					var m []KV
					if rng.Bool() {
						m = []KV{{"X-Amz-Meta-Up", fmt.Sprint(j)}, {"Content-Type", "application/x-test"}}
						if rng.Intn(3) == 0 {
							// a header given with an empty value is given: the completed object carries it, not what the
							// object it replaces had under that name
							m = []KV{{"X-Amz-Meta-Up", ""}, {"X-Amz-Meta-Note", []string{"", "n"}[rng.Intn(2)]}}
						}
					}
					id := s.Initiate(b, k, m)
					if id != "" {
						ups = append(ups, &upl{key: k, id: id, etags: map[int]string{}})
					}
				case w < 55:
					u := pick()
					pn := partNums[rng.Intn(len(partNums))]
					if rng.Intn(3) > 0 {
						pn = 1 + rng.Intn(4)
					}
					body := c06Body(rng, j)
					if rng.Intn(20) == 0 {
						body = []byte{}
					}
					if pn >= 1 && pn <= 10000 && rng.Intn(6) == 0 {
						// a re-upload (or first upload) of the part that the server has to refuse: the digest of
						// other bytes, or more bytes than declared; the part held before stays the "most recent"
						if rng.Bool() {
							s.PartRaw(b, u.key, u.id, strconv.Itoa(pn), [][2]string{{"Content-Length", strconv.Itoa(len(body))}, {"Content-MD5", b64md5(append([]byte("other"), body...))}}, body, -1)
						} else {
							s.PartRaw(b, u.key, u.id, strconv.Itoa(pn), [][2]string{{"Content-Length", strconv.Itoa(len(body))}}, append(append([]byte{}, body...), []byte("tail")...), -1)
						}
						continue
					}
					if et := s.UploadPart(b, u.key, u.id, pn, body); et != "" {
						u.etags[pn] = et
					}
				case w < 75:
					u := pick()
					var nums []int
					for n := range u.etags {
						nums = append(nums, n)
					}
					sort.Ints(nums)
					var parts []CPart
					mode := rng.Intn(10)
					subset := mode == 1 || rng.Intn(3) == 0 // a subset list on its own is valid; combined with a defect it is rejected
					for _, n := range nums {
						if subset && rng.Bool() {
							continue
						}
						parts = append(parts, CPart{n, u.etags[n]})
					}
					switch mode {
					case 2: // permutation
						for x := len(parts) - 1; x > 0; x-- {
							y := rng.Intn(x + 1)
							parts[x], parts[y] = parts[y], parts[x]
						}
					case 3: // unknown number
						parts = append(parts, CPart{partNums[rng.Intn(len(partNums))], "\"00000000000000000000000000000000\""})
					case 4: // wrong etag: unrelated, or the right digest with something appended / in another spelling
						if len(parts) > 0 {
							x := rng.Intn(len(parts))
							right := strings.Trim(parts[x].ETag, "\"")
							parts[x].ETag = []string{"\"ffffffffffffffffffffffffffffffff\"", "\"" + right + "-1\"", "\"" + right + "0\"", "\"" + right + "zz\"",
								"\"" + strings.ToUpper(right) + "\"", "\"" + right[:len(right)/2] + "\"", "\"0" + right + "\""}[rng.Intn(7)]
						}
					case 5: // duplicate
						if len(parts) > 0 {
							parts = append(parts, parts[len(parts)-1])
						}
					case 6: // unquoted etags
						for x := range parts {
							parts[x].ETag = strings.Trim(parts[x].ETag, "\"")
						}
					case 7:
						parts = nil
					}
					r := s.Complete(b, u.key, u.id, parts)
					if r.Status != 200 && rng.Intn(2) == 0 {
						s.ListParts(b, u.key, u.id, -1, -1) // a rejected complete leaves the pending upload untouched
					}
					if r.Status == 200 {
						nontrivial(fmt.Sprint(kind, i, j))
						for x, y := range ups {
							if y == u {
								ups = append(ups[:x], ups[x+1:]...)
								break
							}
						}
					}
				case w < 82:
					u := pick()
					if r := s.Abort(b, u.key, u.id); r.Status == 204 {
						for x, y := range ups {
							if y == u {
								ups = append(ups[:x], ups[x+1:]...)
								break
							}
						}
					}
				case w < 92:
					s.Get(b, keys[rng.Intn(2)], "")
				case w < 96:
					u := pick()
					s.ListParts(b, u.key, u.id, -1, -1)
				default:
					s.ListUploads(b, "", "", "", "", -1)
				}
			}
			for _, k := range keys {
				s.Get(b, k, "")
				s.Head(b, k, "")
			}
			s.ListUploads(b, "", "", "", "", -1)
			for _, u := range ups {
				s.ListParts(b, u.key, u.id, -1, -1)
			}
			s.end()
		}
	}
	sample("histories of 30 ops: initiate (with/without metadata) / upload-part n in {1..4, 7, 9999, 10000, 10001, 0, -1} incl. re-upload and empty body / complete (all parts ascending, subset, permutation, unknown number, wrong etag, duplicate, unquoted etags, empty list; each defect also combined with a subset list; a rejected complete is followed by list-parts) / abort / get / list-parts / list-uploads an upload of 1001 parts completed with all of them; over 2 keys and several simultaneous uploads (upload ids also used through the other key's URL), on every backend; a complete refused by the backend itself (fs: key below an object / key is a directory) leaves the upload pending and listed")
}

// ---------------------------------------------------------------- C14

func runC14(tier string, seed uint64) {
	rng := NewRng(seed)
	for _, kind := range allKinds {
		c06BackendRefusal("c14", kind) // a refused complete leaves the upload in both listings
	}
	nseq := 30
	if tier == "thorough" {
		nseq = 400
	}
	keyPool0 := []string{"a", "b/x", "b/y", "c", "d/e/f", "ab", "b"}
	// keys that begin with a byte that sorts before the delimiter (keys that begin with the delimiter itself: see keyPool2; and known finding D32 for what happens when their groups interleave)
	keyPool1 := []string{"docs/c", "docs/a", ".cfg/x", "-tmp", "+in/1", ".x", "docs/b/z"}
	// keys with white space at either end: a marker is the key, byte for byte
	keyPool3 := []string{" lead", "mid dle", "trail ", " ", "\ttab", "z"}
	// a key that begins with the delimiter next to the key it turns into when the delimiter is stripped
	keyPool2 := []string{"/data", "c", "data"}
	for i := 0; i < nseq; i++ {
		keyPool := keyPool0
		if i%4 == 3 {
			keyPool = keyPool1
		}
		if i%8 == 2 {
			keyPool = keyPool3
		}
		if i%8 == 5 {
			// a fixed shape: "/data" is reported under the name "data" (its delimiter is stripped), "c" sorts
			// between it and the plain key "data"; every upload must still be visited by every walk
			keyPool = keyPool2
		}
		s := newSess("c14", "mem", SessOpts{})
		b := singleBucketName
		s.MkBucket(b)
		var ups []*upl
		nk := 2 + rng.Intn(4)
		if i%3 == 0 {
			nk = rng.Intn(2) // one or two keys: many uploads of the same key, removed from the middle of its list
		}
		protected := 0
		if i%8 == 5 {
			nk = len(keyPool2) - 1
			for _, k := range keyPool2 { // one upload per key that stays pending whatever the history does
				if id := s.Initiate(b, k, nil); id != "" {
					ups = append(ups, &upl{key: k, id: id, etags: map[int]string{}})
				}
			}
			protected = len(ups)
		}
		for j := 0; j < 14+rng.Intn(10); j++ {
			switch w := rng.Intn(100); {
			case w < 35 || len(ups) == 0:
				k := keyPool[rng.Intn(nk+1)]
				if id := s.Initiate(b, k, nil); id != "" {
					ups = append(ups, &upl{key: k, id: id, etags: map[int]string{}})
				}
			case w < 75:
				u := ups[rng.Intn(len(ups))]
				pn := []int{1, 2, 3, 5, 8, 13, 40, 9999, 10000}[rng.Intn(9)]
				if rng.Intn(6) == 0 {
					// the part number as a client may spell it: a decimal numeral, zero-padded or signed; anything
					// else names no part (the listing shows the part under its true number)
					sp := []string{"010", "008", "+3", "00013", "0x10", "0b11", "0o17", "1_0", "1e1", " 5"}[rng.Intn(10)]
					body := c06Body(rng, j)
					r := s.PartRaw(b, u.key, u.id, sp, [][2]string{{"Content-Length", strconv.Itoa(len(body))}}, body, -1)
					if n, err := strconv.ParseInt(sp, 10, 32); err == nil && r.Status == 200 {
						u.etags[int(n)] = r.Header.Get("ETag")
					}
					continue
				}
				if len(ups) > 1 && rng.Intn(8) == 0 {
					// the id of this upload used through the key of another one (part upload, part listing, abort):
					// there is no such upload under that key, and the listings of both stay what they were
					o := ups[rng.Intn(len(ups))]
					if o.key != u.key {
						switch rng.Intn(3) {
						case 0:
							s.UploadPart(b, o.key, u.id, pn, c06Body(rng, j))
						case 1:
							s.ListParts(b, o.key, u.id, -1, -1)
						default:
							s.Abort(b, o.key, u.id)
						}
						s.ListParts(b, u.key, u.id, -1, -1)
						s.ListUploads(b, "", "", "", "", -1)
						continue
					}
				}
				if _, held := u.etags[pn]; held && rng.Intn(3) == 0 {
					// a re-upload of a part that the server refuses (the digest of other bytes; more bytes than
					// declared): the part held before is still the one the listings show
					body := c06Body(rng, j)
					if rng.Bool() {
						s.PartRaw(b, u.key, u.id, strconv.Itoa(pn), [][2]string{{"Content-Length", strconv.Itoa(len(body))}, {"Content-MD5", b64md5(append([]byte("other"), body...))}}, body, -1)
					} else {
						s.PartRaw(b, u.key, u.id, strconv.Itoa(pn), [][2]string{{"Content-Length", strconv.Itoa(len(body))}}, append(append([]byte{}, body...), []byte("tail")...), -1)
					}
					s.ListParts(b, u.key, u.id, -1, -1)
					continue
				}
				if et := s.UploadPart(b, u.key, u.id, pn, c06Body(rng, j)); et != "" {
					u.etags[pn] = et
				}
			case w < 85:
				if len(ups) <= protected {
					continue
				}
				x := protected + rng.Intn(len(ups)-protected)
				s.Abort(b, ups[x].key, ups[x].id)
				ups = append(ups[:x], ups[x+1:]...)
			default:
				if len(ups) <= protected {
					continue
				}
				x := protected + rng.Intn(len(ups)-protected)
				u := ups[x]
				var nums []int
				for n := range u.etags {
					nums = append(nums, n)
				}
				sort.Ints(nums)
				var parts []CPart
				for _, n := range nums {
					parts = append(parts, CPart{n, u.etags[n]})
				}
				if r := s.Complete(b, u.key, u.id, parts); r.Status == 200 {
					ups = append(ups[:x], ups[x+1:]...)
				}
			}
		}
		// part listings: every page size, following the server's marker; arbitrary markers
		for _, u := range ups {
			n := len(u.etags)
			for lim := 1; lim <= n+1; lim++ {
				emit(s.prop, "PB", strconv.Itoa(lim))
				marker := -1
				term := false
				for pg := 0; pg < n+3; pg++ {
					r := s.ListParts(b, u.key, u.id, marker, lim)
					if r.Resp.Status != 200 {
						break
					}
					if !r.Truncated {
						term = true
						break
					}
					marker = r.Next
				}
				emit(s.prop, "PF")
				s.ListParts(b, u.key, u.id, -1, -1)
				emit(s.prop, "PE", boolField(term))
				nontrivial(fmt.Sprint("parts", i, u.id, lim))
			}
			for _, m := range []int{0, 1, 2, 4, 13, 14, 41, 42, 9999, 10000, 10001, 20000, 1000000, 1 << 40} {
				s.ListParts(b, u.key, u.id, m, 1+rng.Intn(3))
			}
			// markers beyond every integer type: still numbers beyond the highest part. Refused, or answered
			// with no part; never with parts that lie below the marker
			for _, m := range []string{"9223372036854775807", "9223372036854775808", "18446744073709551615", "18446744073709551616", "99999999999999999999", "1" + strings.Repeat("0", 40)} {
				r := do(s.h, Req{Method: "GET", Path: "/" + pathEscape(b) + "/" + pathEscape(u.key) + "?uploadId=" + queryEscape(u.id) + "&part-number-marker=" + m})
				nums := xmlAll(string(r.Body), "PartNumber")
				msg := fmt.Sprintf("%s: ListParts with part-number-marker=%s answers %d with parts %v (IsTruncated %v)", s.kind, m, r.Status, nums, xmlAll(string(r.Body), "IsTruncated"))
				if r.Status >= 400 && r.Status < 500 || r.Status == 200 && len(nums) == 0 && !strings.Contains(string(r.Body), "<IsTruncated>true") {
					emit(s.prop, "GOOD", hs(msg))
				} else {
					emit(s.prop, "BAD", hs("S:parts-below-the-marker-listed "+msg))
				}
			}
		}
		// upload listings
		for _, pd := range [][2]string{{"", ""}, {"", "/"}, {"b", "/"}, {"b/", "/"}, {"a", ""}, {"", "b"}, {"docs/", "/"}, {"/", "/"}, {"/docs/", "/"}, {"docs", "/"}, {".", "/"}, {"x", "/"}} {
			for lim := 1; lim <= len(ups)+1; lim++ {
				emit(s.prop, "PB", strconv.Itoa(lim))
				km, im := "", ""
				term := false
				for pg := 0; pg < len(ups)+3; pg++ {
					r := s.ListUploads(b, pd[0], pd[1], km, im, lim)
					if r.Resp.Status != 200 {
						break
					}
					if !r.Truncated {
						term = true
						break
					}
					if r.NextKey == "" {
						break
					}
					km, im = r.NextKey, r.NextID
				}
				emit(s.prop, "PF")
				s.ListUploads(b, pd[0], pd[1], "", "", -1)
				emit(s.prop, "PE", boolField(term))
				nontrivial(fmt.Sprint("uploads", i, pd, lim))
			}
		}
		// markers behind the last upload: made up by the client, or handed out by the server before the uploads
		// behind them were aborted. The listing resumes after them: nothing is left, and the answer says so
		if len(ups) > 0 {
			s.ListUploads(b, "", "", "zzzz", "", -1)
			s.ListUploads(b, "", "/", "zzzz", "", 1)
			s.ListUploads(b, "b", "", "zzzz", "", 2)
			if first := s.ListUploads(b, "", "", "", "", 1); first.Truncated && first.NextKey != "" && i%2 == 1 {
				// every upload from the marker's key on goes away; then the walk goes on from the markers it holds
				var kept []*upl
				for _, u := range ups {
					if u.key < first.NextKey {
						kept = append(kept, u)
						continue
					}
					s.Abort(b, u.key, u.id)
				}
				ups = kept
				s.ListUploads(b, "", "", first.NextKey, first.NextID, 1)
				s.ListUploads(b, "", "", first.NextKey, "", -1)
				s.ListUploads(b, "", "", "", "", -1)
			}
		}
		// when the last upload is gone (aborted, every second history; completed or aborted as the history
		// had it, otherwise) the bucket has had uploads and lists none
		if i%2 == 0 {
			for _, u := range ups {
				s.Abort(b, u.key, u.id)
			}
			s.ListUploads(b, "", "", "", "", -1)
			s.ListUploads(b, "", "/", "", "", 1)
		}
		s.end()
	}
	// keys of one group that are not neighbours in key order (one of them begins with the delimiter, which
	// the grouping strips; another group lies between them): the complete listing still names each group once
	{
		s := newSess("c14", "mem", SessOpts{})
		b := singleBucketName
		s.MkBucket(b)
		for _, k := range []string{"/a/x", "/b/x", "a/y", "plain", "b/z", "/a/w"} {
			s.Initiate(b, k, nil)
		}
		for _, pd := range [][2]string{{"", "/"}, {"", ""}, {"a", "/"}, {"/", "/"}, {"b/", "/"}} {
			s.ListUploads(b, pd[0], pd[1], "", "", -1)
			s.ListUploads(b, pd[0], pd[1], "", "", 1000)
		}
		nontrivial("uploads-groups-not-adjacent")
		s.end()
	}
	sample("histories of 14-24 ops (initiate over up to 6 keys incl. keys sharing 'b/' and 'b', upload-part with gaps {1,2,3,5,8,13,40}, abort, complete), then for every pending upload: ListParts walks for every max-parts 1..n+1 following NextPartNumberMarker, arbitrary markers {0,1,2,4,13,14,41,42,10^6}; ListMultipartUploads walks for every max-uploads 1..n+1 over 6 prefix/delimiter combinations following (NextKeyMarker, NextUploadIdMarker)")
}

// c06CompleteOverlap: the write of the assembled object is held open (a slow backend) while an abort,
// another part upload or a second complete of the same upload arrives. "Once, or nothing": the two
// requests both finish, exactly one of complete / abort takes effect, and the object is the listed
// parts or what was there before.
func c06CompleteOverlap(kind string) {
	st := newStore(kind)
	if st.Ext != nil {
		st.Close()
		return
	}
	gb := &gatePut{Backend: st.Backend}
	s := &Sess{prop: "c06", kind: kind, st: st, h: newServer(gb), mute: true}
	pre := "-"
	if isSingle(kind) {
		pre = hs(singleBucketName)
	}
	emit("c06", "H", kind, "auto=0,versioned=0,pages=0,failpage=0", pre)
	emit("c06", "NOMODEL")
	b := singleBucketName
	if !isSingle(kind) {
		s.MkBucket(b)
	}
	verdict := func(ok bool, what string) {
		if ok {
			emit("c06", "GOOD", hs(what))
		} else {
			emit("c06", "BAD", hs(what))
		}
	}
	for i, second := range []string{"abort", "part", "complete"} {
		key := fmt.Sprintf("ov%d", i)
		s.Put(b, key, []byte("PREVIOUS"), nil)
		uid := s.Initiate(b, key, nil)
		e1 := s.UploadPart(b, key, uid, 1, []byte("part-one|"))
		e2 := s.UploadPart(b, key, uid, 2, []byte("part-two"))
		parts := []CPart{{1, e1}, {2, e2}}
		gb.arm()
		c1 := make(chan Resp, 1)
		go func() { c1 <- s.Complete(b, key, uid, parts) }()
		if !waitOr(gb.entered, 5*time.Second) {
			emit("c06", "HANG", hs(kind+": complete never reached the backend write"))
			return
		}
		c2 := make(chan Resp, 1)
		go func() {
			switch second {
			case "abort":
				c2 <- s.Abort(b, key, uid)
			case "part":
				c2 <- do(s.h, Req{Method: "PUT", Path: "/" + b + "/" + key + "?uploadId=" + queryEscape(uid) + "&partNumber=3", Body: []byte("late part")})
			default:
				c2 <- s.Complete(b, key, uid, parts)
			}
		}()
		time.Sleep(50 * time.Millisecond)
		close(gb.release)
		var r1, r2 Resp
		ok1, ok2 := false, false
		select {
		case r1 = <-c1:
			ok1 = true
		case <-time.After(5 * time.Second):
		}
		select {
		case r2 = <-c2:
			ok2 = true
		case <-time.After(5 * time.Second):
		}
		if !ok1 || !ok2 {
			emit("c06", "HANG", hs(fmt.Sprintf("%s: a complete whose backend write is slow, overlapped by %s of the same upload: the two requests do not both finish", kind, second)))
			return // requests are stuck inside the store
		}
		g := do(s.h, Req{Method: "GET", Path: "/" + b + "/" + key})
		assembled := g.Status == 200 && string(g.Body) == "part-one|part-two"
		previous := g.Status == 200 && string(g.Body) == "PREVIOUS"
		msg := fmt.Sprintf("%s: complete (slow backend write) overlapped by %s: complete answers %d %s%s, %s answers %d %s%s, GET answers %d %q", kind, second,
			r1.Status, errCode(r1.Body), r1.Panic, second, r2.Status, errCode(r2.Body), r2.Panic, g.Status, truncate(g.Body, 30))
		switch second {
		case "abort":
			verdict(r1.Panic == "" && r2.Panic == "" && ((r1.Status == 200 && r2.Status >= 400 && assembled) || (r2.Status == 204 && r1.Status >= 400 && previous)), msg)
		case "part":
			verdict(r1.Panic == "" && r2.Panic == "" && r1.Status == 200 && assembled, msg)
		default:
			verdict(r1.Panic == "" && r2.Panic == "" && (r1.Status == 200) != (r2.Status == 200) && assembled, msg)
		}
		// the upload is gone either way, and the server still serves multipart requests
		lp, hung := doDeadline(s.h, Req{Method: "GET", Path: "/" + b + "/" + key + "?uploadId=" + queryEscape(uid)}, 3*time.Second)
		verdict(!hung && lp.Status == 404, fmt.Sprintf("%s: afterwards the upload id no longer exists (list-parts answers %d, hung=%v)", kind, lp.Status, hung))
		nontrivial(kind + "|complete-overlapped-by-" + second)
	}
	s.end()
}

// c06EmptyUploadID: a multipart request that names no upload (an empty uploadId) is refused like one
// that names an unknown upload; it is not a request for the object of that key
func c06EmptyUploadID(kind string) {
	s := newSess("c06", kind, SessOpts{})
	emit("c06", "NOMODEL")
	b := singleBucketName
	if !isSingle(kind) {
		s.MkBucket(b)
	}
	s.Put(b, "precious", []byte("the object"), []KV{{"X-Amz-Meta-Keep", "1"}})
	for _, rq := range []Req{
		{Method: "PUT", Path: "/" + b + "/precious?partNumber=1&uploadId=", Body: []byte("a part for no upload")},
		{Method: "GET", Path: "/" + b + "/precious?uploadId="},
		{Method: "POST", Path: "/" + b + "/precious?uploadId=", Body: []byte("<CompleteMultipartUpload></CompleteMultipartUpload>")},
		{Method: "DELETE", Path: "/" + b + "/precious?uploadId="},
		{Method: "DELETE", Path: "/" + b + "/precious?uploadId=&versionId="},
	} {
		r := do(s.h, rq)
		g := do(s.h, Req{Method: "GET", Path: "/" + b + "/precious"})
		msg := fmt.Sprintf("%s: %s %s answers %d %s; the object then reads %d %q (metadata %s)", kind, rq.Method, rq.Path, r.Status, errCode(r.Body), g.Status, truncate(g.Body, 30), metaField(g.Header))
		if r.Status >= 400 && g.Status == 200 && string(g.Body) == "the object" && g.Header.Get("X-Amz-Meta-Keep") == "1" && !(rq.Method == "GET" && string(r.Body) == "the object") {
			emit("c06", "GOOD", hs(msg))
		} else {
			emit("c06", "BAD", hs("S:multipart-request-without-an-upload-touched-the-object "+msg))
		}
	}
	nontrivial(kind + "|empty-upload-id")
	s.end()
}
