package main

import (
	"bytes"
	"crypto/md5"
	"encoding/base64"
	"errors"
	"fmt"
	"mime/multipart"
	"net/http"
	"strconv"
	"strings"
)

func init() { runners["c08"] = runC08 }

// failReader delivers data[:k] and then a transport error instead of EOF
type failReader struct {
	data []byte
	k    int
	pos  int
}

func (f *failReader) Read(p []byte) (int, error) {
	if f.pos >= f.k || f.pos >= len(f.data) {
		return 0, errors.New("verif: transport failure")
	}
	end := f.k
	if end > len(f.data) {
		end = len(f.data)
	}
	n := copy(p, f.data[f.pos:end])
	f.pos += n
	return n, nil
}

func hdrArg(h [][2]string) string {
	if len(h) == 0 {
		return "-"
	}
	var ps []string
	for _, kv := range h {
		ps = append(ps, hs(http.CanonicalHeaderKey(kv[0]))+":"+hs(kv[1]))
	}
	return strings.Join(ps, ",")
}

func (s *Sess) metaLimitArg() string {
	if s.opts.MetaLimit != 0 {
		return strconv.Itoa(s.opts.MetaLimit)
	}
	return "2000"
}

// PutRaw: full control over headers (Content-Length is whatever hdr says), body and reader failure
func (s *Sess) PutRaw(b, k string, hdr [][2]string, body []byte, failAfter int) Resp {
	rq := Req{Method: "PUT", Path: "/" + pathEscape(b) + "/" + pathEscape(k), Header: hdr, NoCL: true}
	if failAfter >= 0 {
		rq.Reader = &failReader{data: body, k: failAfter}
	} else {
		// as net/http does for a body read off a connection, every other request sees the end of
		// the body together with its last bytes rather than in a separate read
		rq.Reader = &fragReader{data: append([]byte{}, body...), eofWith: s.nops%2 == 1}
	}
	r := do(s.h, rq)
	s.emitOp("rput", []string{hs(b), hs(k), hdrArg(hdr), hx(body), strconv.Itoa(failAfter), boolField(!s.opts.NoIntegrity), s.metaLimitArg()}, obsT{r: r})
	return r
}

func (s *Sess) PartRaw(b, k, uid, pn string, hdr [][2]string, body []byte, failAfter int) Resp {
	rq := Req{Method: "PUT", Path: "/" + pathEscape(b) + "/" + pathEscape(k) + "?uploadId=" + queryEscape(uid) + "&partNumber=" + queryEscape(pn), Header: hdr, NoCL: true}
	if failAfter >= 0 {
		rq.Reader = &failReader{data: body, k: failAfter}
	} else {
		// as net/http does for a body read off a connection, every other request sees the end of
		// the body together with its last bytes rather than in a separate read
		rq.Reader = &fragReader{data: append([]byte{}, body...), eofWith: s.nops%2 == 1}
	}
	r := do(s.h, rq)
	s.emitOp("rpart", []string{hs(b), hs(k), hs(uid), hs(pn), hdrArg(hdr), hx(body), strconv.Itoa(failAfter), boolField(!s.opts.NoIntegrity)}, obsT{r: r})
	return r
}

func b64md5(b []byte) string {
	d := md5.Sum(b)
	return base64.StdEncoding.EncodeToString(d[:])
}

func runC08(tier string, seed uint64) {
	rng := NewRng(seed)
	body := []byte("hello world!")
	other := []byte("HELLO WORLD?")
	digests := map[string]string{
		"good": b64md5(body), "wrong": b64md5(other), "malformed": "!!!not-base64!!!", "short": base64.StdEncoding.EncodeToString([]byte("12345")),
		"unpadded": strings.TrimRight(b64md5(body), "="), "empty": "",
	}
	dorder := []string{"none", "good", "wrong", "malformed", "short", "unpadded", "empty"}
	for _, kind := range allKinds {
		for _, noInt := range []bool{false, true} {
			s := newSess("c08", kind, SessOpts{NoIntegrity: noInt, MetaLimit: 300})
			b := singleBucketName
			if !isSingle(kind) {
				s.MkBucket(b)
			}
			s.Put(b, "obj", []byte("the previous object"), []KV{{"X-Amz-Meta-Keep", "me"}, {"Content-Type", "text/x-prev"}})
			uid := s.Initiate(b, "mp", []KV{{"X-Amz-Meta-M", "1"}})
			s.UploadPart(b, "mp", uid, 1, []byte("part-one"))
			snapshot := func() {
				s.Get(b, "obj", "")
				s.Head(b, "obj", "")
				s.Get(b, "new", "")
				s.Get(b, "nd/sub/new", "")
				s.List(ListReq{Bucket: b, MaxKeys: -1})
				s.List(ListReq{Bucket: b, Delim: "/", MaxKeys: -1}) // a refused upload leaves no trace in the hierarchy either
				s.ListParts(b, "mp", uid, -1, -1)
			}
			cl := func(n int) [2]string { return [2]string{"Content-Length", strconv.Itoa(n)} }
			for _, key := range []string{"obj", "new", "nd/sub/new"} {
				// digest x declared length, for a 12-byte, an empty and a 1-byte body
				for bi, body := range [][]byte{body, {}, []byte("x")} {
					digests := digests
					if bi > 0 {
						digests = map[string]string{
							"good": b64md5(body), "wrong": b64md5(other), "malformed": "!!!not-base64!!!", "short": base64.StdEncoding.EncodeToString([]byte("12345")),
							"unpadded": strings.TrimRight(b64md5(body), "="), "empty": "",
						}
					}
					for _, dn := range dorder {
						for _, delta := range []int{0, -1, 1} {
							if bi > 0 && (dn == "short" || dn == "unpadded" || dn == "empty") && delta != 0 {
								continue
							}
							hdr := [][2]string{cl(len(body) + delta)}
							if dn != "none" {
								hdr = append(hdr, [2]string{"Content-MD5", digests[dn]})
							}
							r := s.PutRaw(b, key, hdr, body, -1)
							nontrivial(fmt.Sprint(kind, noInt, key, dn, delta, len(body)))
							snapshot()
							if r.Status == 200 && key != "obj" {
								s.Delete(b, key)
							}
							if r.Status == 200 && key == "obj" {
								s.Put(b, "obj", []byte("the previous object"), []KV{{"X-Amz-Meta-Keep", "me"}, {"Content-Type", "text/x-prev"}})
							}
						}
					}
				}
				// keys well inside the limit whose characters take two and three bytes (segments of 230 and 240
				// bytes in 115 and 80 characters): valid uploads, accepted everywhere
				if key == "new" {
					for _, lk := range []string{strings.Repeat("\xc3\xa9", 115), "w/" + strings.Repeat("\xe6\x97\xa5", 80)} {
						if r := s.Put(b, lk, []byte("long multi-byte key"), []KV{{"X-Amz-Meta-L", "1"}}); r.Status == 200 {
							s.Get(b, lk, "")
							s.List(ListReq{Bucket: b, MaxKeys: -1})
							s.Delete(b, lk)
						}
						snapshot()
					}
				}
				// a surplus that consists of line terminators is a surplus like any other (a text body whose
				// declared length leaves its last newline out)
				restore := func(r Resp) {
					snapshot()
					if r.Status == 200 && key != "obj" {
						s.Delete(b, key)
					}
					if r.Status == 200 && key == "obj" {
						s.Put(b, "obj", []byte("the previous object"), []KV{{"X-Amz-Meta-Keep", "me"}, {"Content-Type", "text/x-prev"}})
					}
				}
				for _, tb := range [][]byte{[]byte("text line\n"), []byte("text line\r\n"), []byte("a\r\n\r\n"), []byte("\n")} {
					for _, cut := range []int{1, 2, 4} {
						if cut > len(tb) || strings.Trim(string(tb[len(tb)-cut:]), "\r\n") != "" {
							continue
						}
						restore(s.PutRaw(b, key, [][2]string{cl(len(tb) - cut)}, tb, -1))
						restore(s.PutRaw(b, key, [][2]string{cl(len(tb) - cut), {"Content-MD5", b64md5(tb)}}, tb, -1))
						nontrivial(fmt.Sprint(kind, noInt, key, "newline-surplus", len(tb), cut))
					}
				}
				restore(s.ChunkedPut(b, key, []byte("chunked text\r\n"), []int{5}, nil, false, len("chunked text")))
				restore(s.ChunkedPut(b, key, []byte("chunked text\n"), []int{7}, nil, true, len("chunked text")))
				// aws-chunked uploads: declared decoded length exact, short by one, long by one, zero
				for _, pl := range [][]byte{[]byte("chunked payload of some bytes"), []byte("z")} {
					for _, declared := range []int{len(pl), len(pl) - 1, len(pl) + 1, 0} {
						r := s.ChunkedPut(b, key, pl, []int{5}, nil, declared%2 == 1, declared)
						nontrivial(fmt.Sprint(kind, noInt, key, "chunked", len(pl), declared))
						snapshot()
						if r.Status == 200 && key != "obj" {
							s.Delete(b, key)
						}
						if r.Status == 200 && key == "obj" {
							s.Put(b, "obj", []byte("the previous object"), []KV{{"X-Amz-Meta-Keep", "me"}, {"Content-Type", "text/x-prev"}})
						}
					}
				}
				// ... and an aws-chunked upload whose transport fails (no EOF) at any point, the closing chunk included
				{
					pl := []byte("chunked and cut off")
					st := encodeChunks(splitChunks(pl, []int{8}))
					for k := 0; k < len(st); k += 1 + len(st)/25 {
						s.ChunkedPutFailing(b, key, pl, []int{8}, k)
					}
					for k := len(st) - 88; k < len(st); k += 5 {
						if k >= 0 {
							s.ChunkedPutFailing(b, key, pl, []int{8}, k)
						}
					}
					snapshot()
				}
				// missing / unparsable / negative length, empty body
				for _, h := range [][][2]string{{}, {{"Content-Length", "abc"}}, {{"Content-Length", "-1"}}, {{"Content-Length", ""}}, {{"Content-Length", "12"}, {"Content-MD5", digests["good"]}}} {
					bd := body
					if len(h) == 2 {
						bd = []byte{}
					}
					s.PutRaw(b, key, h, bd, -1)
					snapshot()
				}
				// no Content-Length, but the decoded length of a streaming upload (on a plain body and on a framed one):
				// the length that is missing is still missing
				s.PutRaw(b, key, [][2]string{{"X-Amz-Decoded-Content-Length", strconv.Itoa(len(body))}}, body, -1)
				snapshot()
				s.PutRaw(b, key, [][2]string{{"X-Amz-Content-Sha256", "STREAMING-AWS4-HMAC-SHA256-PAYLOAD"}, {"X-Amz-Decoded-Content-Length", strconv.Itoa(len(body))}}, encodeChunks(splitChunks(body, []int{5})), -1)
				snapshot()
				// reader failing after k bytes, for every k
				for k := 0; k <= len(body); k++ {
					s.PutRaw(b, key, [][2]string{cl(len(body)), {"Content-MD5", digests["good"]}}, body, k)
					nontrivial(fmt.Sprint(kind, noInt, key, "fail", k))
					if k%4 == 0 {
						snapshot()
					}
				}
				snapshot()
			}
			// a body well above a megabyte (a backend must not switch to another, unchecked path for big uploads)
			if !noInt {
				bigBody := rng.Bytes(1<<20 + 7)
				s.PutRaw(b, "obj", [][2]string{cl(len(bigBody)), {"Content-MD5", digests["wrong"]}}, bigBody, -1)
				snapshot()
				s.PutRaw(b, "obj", [][2]string{cl(len(bigBody) + 7)}, bigBody, -1)
				snapshot()
				s.PutRaw(b, "new", [][2]string{cl(len(bigBody)), {"Content-MD5", digests["wrong"]}}, bigBody, -1)
				snapshot()
				nontrivial(fmt.Sprint(kind, "big-body-rejections"))
			}
			// key length at the limit
			for _, kl := range []int{1023, 1024, 1025} {
				k := strings.Repeat("k", kl)
				if kind != "mem" && kind != "bolt" {
					if kl <= 1024 {
						continue // fs backends: file-name limits (the flattened metadata name) refuse such keys; the property allows a refusal there
					}
					k = strings.Repeat("d/", (kl-1)/2) + strings.Repeat("k", kl-2*((kl-1)/2))
				}
				r := s.PutRaw(b, k, [][2]string{cl(len(body))}, body, -1)
				if r.Status == 200 {
					s.Get(b, k, "")
					s.Delete(b, k)
				}
			}
			// the limit counts bytes, not characters: 512 two-byte characters fit, 513 do not, nor do 342
			// three-byte ones (1026 bytes in 342 characters)
			for _, k := range []string{strings.Repeat("\xc3\xa9", 512), strings.Repeat("\xc3\xa9", 513), strings.Repeat("\xe2\x82\xac", 342), strings.Repeat("\xf0\x9f\x98\x80", 257)} {
				if kind != "mem" && kind != "bolt" {
					if len(k) <= 1024 {
						continue
					}
					k = "d/" + k[:len(k)/2] + "/" + k[len(k)/2:] // segments a file system can hold; 3 more bytes
				}
				r := s.PutRaw(b, k, [][2]string{cl(len(body))}, body, -1)
				snapshot()
				if r.Status == 200 {
					s.Get(b, k, "")
					s.Delete(b, k)
				}
			}
			// metadata at limit-1, limit, limit+1 (limit 300; Content-Length is not stored; Last-Modified counts 42)
			for _, tot := range []int{299, 300, 301} {
				pad := tot - 42 - len("X-Amz-Meta-Pad")
				r := s.PutRaw(b, "obj", [][2]string{cl(len(body)), {"X-Amz-Meta-Pad", strings.Repeat("p", pad)}}, body, -1)
				snapshot()
				if r.Status == 200 {
					s.Put(b, "obj", []byte("the previous object"), []KV{{"X-Amz-Meta-Keep", "me"}, {"Content-Type", "text/x-prev"}})
				}
			}
			// the limit is the configured one on every upload path: browser-form uploads with metadata well over it
			// (and well under the built-in default) are refused like PUTs, over the existing object and an absent key
			for _, fk := range []string{"obj", "new"} {
				for _, pad := range []int{400, 900, 1600} {
					var buf bytes.Buffer
					mw := multipart.NewWriter(&buf)
					mw.WriteField("key", fk)
					mw.WriteField("X-Amz-Meta-Pad", strings.Repeat("p", pad))
					fw, _ := mw.CreateFormFile("file", "upload.bin")
					fw.Write([]byte("form upload with too much metadata"))
					mw.Close()
					r := do(s.h, Req{Method: "POST", Path: "/" + b, Body: buf.Bytes(), Header: [][2]string{{"Content-Type", mw.FormDataContentType()}}})
					msg := fmt.Sprintf("%s: browser-form upload of %q with %d bytes of metadata on a server whose metadata limit is 300 answers %d %s", kind, fk, pad, r.Status, errCode(r.Body))
					if r.Status >= 400 && r.Status < 500 {
						emit("c08", "GOOD", hs(msg))
					} else {
						emit("c08", "BAD", hs("S:upload-over-the-metadata-limit-accepted "+msg))
					}
					snapshot()
				}
			}
			// part uploads
			for _, dn := range dorder {
				for _, delta := range []int{0, -1, 1} {
					hdr := [][2]string{cl(len(body) + delta)}
					if dn != "none" {
						hdr = append(hdr, [2]string{"Content-MD5", digests[dn]})
					}
					s.PartRaw(b, "mp", uid, "2", hdr, body, -1)
					snapshot()
				}
			}
			for _, pn := range []string{"0", "-1", "10001", "abc", "", "10000"} {
				s.PartRaw(b, "mp", uid, pn, [][2]string{cl(len(body))}, body, -1)
			}
			for k := 0; k <= len(body); k += 3 {
				s.PartRaw(b, "mp", uid, "3", [][2]string{cl(len(body))}, body, k)
			}
			s.PartRaw(b, "mp", "nope", "1", [][2]string{cl(len(body))}, body, -1)
			s.PartRaw(b, "mp", uid, "1", [][2]string{{"Content-Length", "0"}}, []byte{}, -1)
			snapshot()
			_ = rng
			// a multipart upload cannot be started with more metadata than an object may carry
			{
				ups := func() string {
					r := do(s.h, Req{Method: "GET", Path: "/" + b + "?uploads"})
					return fmt.Sprint(r.Status, xmlAll(string(r.Body), "UploadId"))
				}
				before := ups()
				var rs []int
				for _, tot := range []int{299, 300, 301, 400} {
					pad := tot - 42 - len("X-Amz-Meta-Pad")
					r := do(s.h, Req{Method: "POST", Path: "/" + b + "/mp-meta?uploads", Body: []byte{}, Header: [][2]string{{"X-Amz-Meta-Pad", strings.Repeat("p", pad)}}})
					rs = append(rs, r.Status)
					if r.Status == 200 {
						if ids := xmlAll(string(r.Body), "UploadId"); len(ids) == 1 {
							do(s.h, Req{Method: "DELETE", Path: "/" + b + "/mp-meta?uploadId=" + queryEscape(ids[0])})
						}
					}
				}
				after := ups()
				msg := fmt.Sprintf("%s: initiating a multipart upload with metadata totalling limit-1 / limit / limit+1 / limit+100 answers %v; pending uploads before %s, after %s", kind, rs, before, after)
				if rs[0] == 200 && rs[1] == 200 && rs[2] >= 400 && rs[3] >= 400 && before == after {
					emit("c08", "GOOD", hs(msg))
				} else {
					emit("c08", "BAD", hs("S:metadata-limit-on-initiate "+msg))
				}
			}
			// aws-chunked part uploads with a Content-MD5: the digest is that of the payload, not of its framing
			// (on an upload of its own, outside the model's view)
			if !noInt {
				ir := do(s.h, Req{Method: "POST", Path: "/" + b + "/mp-chunked?uploads", Body: []byte{}})
				if ids := xmlAll(string(ir.Body), "UploadId"); len(ids) == 1 {
					pay1, pay2 := []byte("chunked part payload, first"), []byte("CHUNKED PART PAYLOAD, OTHER")
					put := func(payload []byte, digest string) Resp {
						st := encodeChunks(splitChunks(payload, []int{9}))
						return do(s.h, Req{Method: "PUT", Path: "/" + b + "/mp-chunked?uploadId=" + queryEscape(ids[0]) + "&partNumber=1", Body: st, Header: [][2]string{
							{"X-Amz-Content-Sha256", "STREAMING-AWS4-HMAC-SHA256-PAYLOAD"}, {"X-Amz-Decoded-Content-Length", strconv.Itoa(len(payload))}, {"Content-MD5", digest}}})
					}
					parts := func() string {
						r := do(s.h, Req{Method: "GET", Path: "/" + b + "/mp-chunked?uploadId=" + queryEscape(ids[0])})
						return fmt.Sprint(r.Status, xmlAll(string(r.Body), "PartNumber"), xmlAll(string(r.Body), "ETag"), xmlAll(string(r.Body), "Size"))
					}
					r1 := put(pay1, b64md5(pay1))
					held := parts()
					r2 := put(pay2, b64md5(encodeChunks(splitChunks(pay2, []int{9})))) // the digest of the framed bytes: not the payload's
					r3 := put(pay2, b64md5(pay1))
					after := parts()
					msg := fmt.Sprintf("%s: aws-chunked part with the Content-MD5 of its payload answers %d; re-uploads with the digest of the framed body / of other bytes answer %d / %d; the upload held %s and holds %s", kind, r1.Status, r2.Status, r3.Status, held, after)
					if r1.Status == 200 && r2.Status >= 400 && r3.Status >= 400 && held == after {
						emit("c08", "GOOD", hs(msg))
					} else {
						emit("c08", "BAD", hs("S:chunked-part-digest "+msg))
					}
					// the same part sent again with other bytes under the digest of the first, the transfer ending
					// early at every point (inside a data chunk, between chunks, inside the closing chunk): the
					// digest does not match what arrived, so none of them is accepted and the part stays
					st2 := encodeChunks(splitChunks(pay2, []int{9}))
					cutBad, cutN := "", 0
					for k := 0; k < len(st2); k++ {
						if k > 40 && k < len(st2)-100 && k%7 != 0 {
							continue
						}
						for _, declared := range []int{len(st2[:k]), len(st2)} {
							r := do(s.h, Req{Method: "PUT", Path: "/" + b + "/mp-chunked?uploadId=" + queryEscape(ids[0]) + "&partNumber=1", Reader: bytes.NewReader(st2[:k]), NoCL: true, Header: [][2]string{
								{"Content-Length", strconv.Itoa(declared)},
								{"X-Amz-Content-Sha256", "STREAMING-AWS4-HMAC-SHA256-PAYLOAD"}, {"X-Amz-Decoded-Content-Length", strconv.Itoa(len(pay2))}, {"Content-MD5", b64md5(pay1)}}})
							cutN++
							if now := parts(); (r.Status < 400 || now != held) && cutBad == "" {
								cutBad = fmt.Sprintf("cut after %d of %d framed bytes (Content-Length %d) answers %d; the upload held %s and holds %s", k, len(st2), declared, r.Status, held, now)
							}
						}
					}
					if cutBad == "" {
						emit("c08", "GOOD", hs(fmt.Sprintf("%s: aws-chunked part re-sent with other bytes under the first digest and cut short at %d points: all refused, the part stays", kind, cutN)))
					} else {
						emit("c08", "BAD", hs("S:cut-chunked-part-with-wrong-digest-accepted "+kind+": aws-chunked part re-sent with other bytes under the digest of the first: "+cutBad))
					}
					do(s.h, Req{Method: "DELETE", Path: "/" + b + "/mp-chunked?uploadId=" + queryEscape(ids[0])})
					nontrivial(fmt.Sprint(kind, "chunked-part-with-digest"))
				}
			}
			// an upload the backend itself refuses (real directories: a path segment longer than a file name
			// can be) is a rejected upload like any other: nothing of it stays, not even the directories
			{
				raw := func() string {
					var sb strings.Builder
					for _, q := range []string{"", "?delimiter=%2F", "?prefix=nd2%2F", "?prefix=nd2%2F&delimiter=%2F"} {
						r := do(s.h, Req{Method: "GET", Path: "/" + b + q})
						sb.WriteString(fmt.Sprint(r.Status, xmlAll(string(r.Body), "Key"), xmlAll(string(r.Body), "Prefix"), ";"))
					}
					g := do(s.h, Req{Method: "GET", Path: "/" + b + "/obj"})
					sb.WriteString(fmt.Sprint(g.Status, string(g.Body)))
					return sb.String()
				}
				for _, k := range []string{"nd2/sub/" + strings.Repeat("t", 256), "nd2/" + strings.Repeat("u", 300) + "/leaf"} {
					before := raw()
					r := do(s.h, Req{Method: "PUT", Path: "/" + b + "/" + k, Body: body})
					if r.Status < 400 {
						do(s.h, Req{Method: "DELETE", Path: "/" + b + "/" + k})
						continue
					}
					after := raw()
					msg := fmt.Sprintf("%s: PUT of a key the backend cannot store (a path segment longer than 255 bytes) answers %d; listings and the other object before: %s after: %s", kind, r.Status, before, after)
					if before == after {
						emit("c08", "GOOD", hs(msg))
					} else {
						emit("c08", "BAD", hs("S:refused-upload-left-a-trace "+msg))
					}
					g := do(s.h, Req{Method: "GET", Path: "/" + b + "/" + k})
					d := do(s.h, Req{Method: "DELETE", Path: "/" + b + "/" + k})
					if g.Status != 404 || d.Status != 204 {
						emit("c08", "BAD", hs(fmt.Sprintf("S:absent-key-not-NoSuchKey %s: the refused key afterwards answers GET %d DELETE %d (a key that was never stored reads as NoSuchKey and deletes quietly)", kind, g.Status, d.Status)))
					}
					nontrivial(fmt.Sprint(kind, "backend-refused-upload", len(k)))
				}
			}
			s.end()
		}
	}
	sample("per backend x integrity on/off (metadata limit 300): PUT over an existing object and over an absent key with Content-MD5 in {absent, good, wrong, malformed, 5-byte digest, unpadded, empty header} x declared length {exact, short by 1, long by 1} x body {12 bytes, empty, 1 byte}; a body of 1 MiB + 7 with a wrong digest and with a declared length 7 too long; aws-chunked uploads with the declared decoded length exact / short by one / long by one / zero; missing / non-numeric / negative / empty Content-Length; empty body with a declared length; body reader failing after every k in 0..len; keys of 1023/1024/1025 bytes; metadata totalling limit-1 / limit / limit+1; the same digest x length matrix, bad part numbers and failing readers for upload-part; after each request a snapshot (GET+HEAD of the previous object, GET of the absent key, bucket listing, ListParts of the pending upload)")
}
