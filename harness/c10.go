package main

import (
	"fmt"
	"github.com/johannesboyne/gofakes3"
	"os"
	"path/filepath"
	"sort"
	"strings"
	"unicode/utf8"
)

func init() { runners["c10"] = runC10 }

var c10Keys = []string{
	"a", "a/b", "n", "..", "../bkb/a", "../../buckets_evil/x", "../../../escape", "a//b", "./a", "a/./b", "a/../n",
	".hidden", "..dots", "x\\y", "%2e%2e/z", "a%2Fb", "_meta", "metadata", ".modtime-resolution", "buckets/bkb/a",
	"a_b", "a\\b", "x/y", "x_y", "A", // names that collide under flattening ('/', '\\' -> '_') or case folding
	"dir", "/lead", "lead", "sp ace", "\xc3\xa9", "long/" + strings.Repeat("s", 254),
	"bkb/x", "bkt/x", "bkc2", // named like buckets
	"lng/x/" + strings.Repeat("t", 256), // a segment no real directory can hold: refused there, and nothing may stay behind
}

// names next to the key "n" that look like scratch files of an upload of it
var c10Scratch = []string{"n.tmp", "n~", "n.part", "n.new", ".n.tmp", "n.bak", ".n.swp"}

func init() { c10Keys = append(c10Keys, c10Scratch...) }

// the labels an operation addressed to (bucket, key) may change
func c10Addressed(b, k string) []string {
	out := []string{"o|" + b + "|" + k + "\x00", "l|" + b + "|" + k + "\x00", "f|" + b + "|", "b|" + b + "\x00", "u|" + b + "|" + k + "\x00"}
	if t := strings.TrimLeft(k, "/"); strings.Contains(t, "/") {
		out = append(out, "p|"+b+"|"+t[:strings.Index(t, "/")+1]+"\x00") // the common prefix the key is grouped under
	} else if t != k {
		// a key that begins with the delimiter is outside the scope of the listing properties; the
		// key-value backends report it as the common prefix "<first segment>" (see D32)
		out = append(out, "p|"+b+"|"+t+"\x00")
	}
	return out
}

// what every probe universe contains
func c10Snapshot(s *Sess, buckets []string) []string {
	var ents []string
	add := func(label, val string) { ents = append(ents, hs(label)+":"+hs(val)) }
	for _, b := range buckets {
		r := do(s.h, Req{Method: "HEAD", Path: "/" + pathEscape(b)})
		add("e|"+b+"|", fmt.Sprint(r.Status))
		lr := do(s.h, Req{Method: "GET", Path: "/" + pathEscape(b)})
		if lr.Status == 200 {
			for _, k := range xmlContentsKeys(string(lr.Body)) {
				add("l|"+b+"|"+k+"\x00", "listed")
			}
		} else {
			add("l|"+b+"|", fmt.Sprint("list-status-", lr.Status))
		}
		// pending multipart uploads of the bucket, with the parts each holds
		if ur := do(s.h, Req{Method: "GET", Path: "/" + pathEscape(b) + "?uploads"}); ur.Status == 200 {
			for _, blk := range xmlBlocks(string(ur.Body), "Upload") {
				ks, ids := xmlAll(blk, "Key"), xmlAll(blk, "UploadId")
				if len(ks) == 0 || len(ids) == 0 {
					continue
				}
				pr := do(s.h, Req{Method: "GET", Path: "/" + pathEscape(b) + "/" + pathEscape(ks[0]) + "?uploadId=" + queryEscape(ids[0])})
				add("u|"+b+"|"+ks[0]+"\x00"+ids[0], fmt.Sprint(pr.Status, xmlAll(string(pr.Body), "PartNumber"), xmlAll(string(pr.Body), "ETag"), xmlAll(string(pr.Body), "Size")))
			}
		}
		// the grouped view: a common prefix has to come from a key (probed above) and go with it
		if dr := do(s.h, Req{Method: "GET", Path: "/" + pathEscape(b) + "?delimiter=%2F"}); dr.Status == 200 {
			for _, blk := range xmlBlocks(string(dr.Body), "CommonPrefixes") {
				for _, p := range xmlAll(blk, "Prefix") {
					add("p|"+b+"|"+p+"\x00", "prefix")
				}
			}
		}
		for _, k := range c10Keys {
			if strings.TrimRight(k, "/") != k || k == "" {
				continue // not addressable as such (routing trims trailing slashes)
			}
			g := do(s.h, Req{Method: "GET", Path: "/" + pathEscape(b) + "/" + pathEscape(k)})
			v := fmt.Sprint(g.Status)
			if g.Status == 200 {
				v += "|" + g.Header.Get("ETag") + "|" + string(g.Body) + "|" + metaField(g.Header)
			}
			if g.Panic != "" {
				v = "panic"
			}
			add("o|"+b+"|"+k+"\x00", v)
		}
	}
	// bucket list
	r := do(s.h, Req{Method: "GET", Path: "/"})
	for _, blk := range xmlBlocks(string(r.Body), "Bucket") {
		// a bucket is listed with the date it was created on: that is part of what the bucket "returns"
		if ns := xmlAll(blk, "Name"); len(ns) > 0 {
			created := ""
			if s.kind == "mem" || s.kind == "bolt" || s.kind == "boltbin" {
				created = " created " + strings.Join(xmlAll(blk, "CreationDate"), ",") // stored by these backends; the fs backends report a directory's modification time
			}
			add("b|"+ns[0]+"\x00", "bucket"+created)
		}
	}
	// on-disk tree of a real directory: anything outside the per-bucket roots
	if s.st.dir != "" && (s.kind == "fsdir" || s.kind == "sfsdir") {
		filepath.Walk(s.st.dir, func(p string, info os.FileInfo, err error) error {
			if err != nil {
				return nil
			}
			rel, _ := filepath.Rel(s.st.dir, p)
			rel = filepath.ToSlash(rel)
			parts := strings.SplitN(rel, "/", 3)
			size := fmt.Sprint(info.Size())
			if info.IsDir() {
				// directories count too: one left behind by a refused upload is a common prefix
				// without a key and keeps its bucket from ever being deleted
				if len(parts) < 3 {
					return nil // the roots themselves and the bucket directories (probed through HEAD)
				}
				size = "dir"
			}
			switch {
			case s.kind == "fsdir" && len(parts) == 3 && (parts[0] == "buckets" || parts[0] == "metadata"):
				add("f|"+parts[1]+"|"+parts[0]+"/"+parts[2], size)
			case s.kind == "sfsdir" && len(parts) >= 2 && (parts[0] == "data" || parts[0] == "meta"):
				add("f|"+singleBucketName+"|"+rel, size)
			default:
				add("x|"+rel, size) // outside every bucket root
			}
			return nil
		})
	}
	return ents
}

func xmlContentsKeys(body string) []string {
	var out []string
	for _, blk := range xmlBlocks(body, "Contents") {
		if ks := xmlAll(blk, "Key"); len(ks) > 0 {
			out = append(out, ks[0])
		}
	}
	return out
}

func runC10(tier string, seed uint64) {
	rng := NewRng(seed)
	nseq, length := 6, 40
	if tier == "thorough" {
		nseq, length = 60, 60
	}
	for _, kindSpec := range append(append([]string{}, allKinds...), "mem+hostbase", "bolt+hostbucket") {
		kind := strings.TrimSuffix(strings.TrimSuffix(kindSpec, "+hostbase"), "+hostbucket")
		buckets := []string{singleBucketName, "bkb", "bkc"}
		probe := append([]string{}, buckets...)
		probe = append(probe, "_meta", ".", "metadata", "buckets", "bkc2", "bkc.x")
		if isSingle(kind) {
			buckets = []string{singleBucketName}
		}
		modelled := kind == "mem" || kind == "bolt"
		for i := 0; i < nseq; i++ {
			s := newSess("c10", kind, SessOpts{})
			if strings.HasSuffix(kindSpec, "+hostbase") {
				// the same histories addressed host-style through a host-bucket-base server
				s.h = hostStyle{inner: newServer(s.st.Backend, gofakes3.WithHostBucketBase("s3.example.com")), base: "s3.example.com"}
			}
			if strings.HasSuffix(kindSpec, "+hostbucket") {
				// ... and through a plain host-bucket server (the first label of any host is the bucket; keys
				// whose first segment is the name of their bucket are keys like any other)
				s.h = hostStyle{inner: newServer(s.st.Backend, gofakes3.WithHostBucket(true)), base: "s3.example.com"}
			}
			if !modelled || strings.HasSuffix(kindSpec, "+hostbucket") {
				// (a plain host-bucket server has no path-style fallback: names that are no host label — bkc.x, _meta,
				// "." — address nothing there, which the model does not know; the frame oracle carries this variant)
				emit("c10", "NOMODEL")
			}
			preludeKeys := map[string][]string{}
			if !isSingle(kind) {
				s.MkBucket(buckets[0])
				s.MkBucket(buckets[1])
			}
			// some benign content
			for _, b := range buckets[:min(2, len(buckets))] {
				s.Put(b, "a", []byte{}, nil) // zero bytes: an object all the same, also when a key below it is addressed
				s.Put(b, "n", []byte("N-"+b), nil)
				preludeKeys[b] = append(preludeKeys[b], "a", "n")
			}
			stored := map[string][]string{}
			for pb, pks := range preludeKeys {
				stored[pb] = append(stored[pb], pks...)
			}
			// a listing is addressed to its bucket whatever its prefix spells: it shows keys (and groups of keys)
			// of that bucket that begin with the prefix, and every key held under the prefix is among them
			listCheck := func(b, pre, delim string, v2 bool) {
				lr := s.List(ListReq{Bucket: b, Prefix: pre, Delim: delim, MaxKeys: -1, V2: v2})
				if lr.Resp.Status == 200 {
					have := map[string]bool{}
					for _, sk := range stored[b] {
						have[sk] = true
					}
					var hidden []string
					for sk := range have {
						if !strings.HasPrefix(sk, pre) || strings.HasPrefix(sk, "/") || !utf8.ValidString(sk) {
							continue
						}
						if hr := do(s.h, Req{Method: "HEAD", Path: "/" + pathEscape(b) + "/" + pathEscape(sk)}); hr.Status != 200 {
							continue // deleted since
						}
						shown := false
						for _, lk := range lr.Keys {
							shown = shown || lk == sk
						}
						for _, lp := range lr.Prefixes {
							shown = shown || strings.HasPrefix(sk, lp)
						}
						if !shown {
							hidden = append(hidden, sk)
						}
					}
					if len(hidden) > 0 {
						sort.Strings(hidden)
						emit("c10", "BAD", hs(fmt.Sprintf("S:listing-hides-a-stored-key %s: listing bucket %q with prefix %q shows neither %q nor a common prefix they lie under (keys %q, common prefixes %q)", kind, b, pre, hidden, lr.Keys, lr.Prefixes)))
					}
					var alien []string
					for _, lk := range lr.Keys {
						if !have[lk] || !strings.HasPrefix(lk, pre) {
							alien = append(alien, lk)
						}
					}
					for _, lp := range lr.Prefixes {
						ok := false
						for sk := range have {
							ok = ok || strings.HasPrefix(sk, lp)
						}
						if !ok || !strings.HasPrefix(lp, pre) {
							alien = append(alien, lp)
						}
					}
					if len(alien) > 0 {
						emit("c10", "BAD", hs(fmt.Sprintf("S:listing-shows-what-the-bucket-does-not-hold %s: listing bucket %q with prefix %q shows %q, which are not keys written to that bucket under that prefix", kind, b, pre, alien)))
					}
				}
			}
			var pending [][3]string // bucket, key, upload id
			// an object uploaded with every kind of header a copy treats specially (the ACL is not carried
			// over; the rest is): it is the source of the first copy of every history
			s.Put(buckets[0], "lead", []byte("copy-source"), []KV{{"X-Amz-Acl", "public-read"}, {"X-Amz-Meta-Src", "1"}, {"Content-Type", "text/x-src"}, {"X-Amz-Storage-Class", "STANDARD"}})
			stored[buckets[0]] = append(stored[buckets[0]], "lead")
			if modelled {
				// (the key-value backends hold a key that differs from it by a leading slash as a key of its own)
				s.Put(buckets[0], "/lead", []byte("another key"), nil)
				stored[buckets[0]] = append(stored[buckets[0]], "/lead")
			}
			before := c10Snapshot(s, probe)
			if !isSingle(kind) {
				// buckets whose names begin with another bucket's name are buckets of their own: creating
				// and deleting the (empty) bucket "bkc" is no business of "bkc2" and "bkc.x"
				for _, nb := range []string{"bkc2", "bkc.x"} {
					s.MkBucket(nb)
					s.Put(nb, "n", []byte("N-"+nb), []KV{{"X-Amz-Meta-Of", nb}})
					s.Put(nb, "x/y", []byte("XY-"+nb), nil)
				}
				before = c10Snapshot(s, probe)
				for step, f := range []func() Resp{func() Resp { return s.MkBucket("bkc") }, func() Resp { return s.RmBucket("bkc") }} {
					r := f()
					after := c10Snapshot(s, probe)
					emit("c10", "FRAME", joinHex([]string{"e|bkc|", "l|bkc|", "p|bkc|", "o|bkc|", "b|bkc\x00", "f|bkc|", "u|bkc|"}), boolField(r.Status >= 400), strings.Join(before, ","), strings.Join(after, ","),
						hs(fmt.Sprintf("%s %s of the empty bucket \"bkc\" next to \"bkc2\" and \"bkc.x\" status=%d", kind, []string{"creation", "deletion"}[step], r.Status)))
					before = after
				}
			}
			{
				db := buckets[len(buckets)-1]
				r := s.Copy(buckets[0], "lead", db, "x/y")
				if r.Status == 200 {
					stored[db] = append(stored[db], "x/y")
				}
				after := c10Snapshot(s, probe)
				emit("c10", "FRAME", joinHex(c10Addressed(db, "x/y")), boolField(r.Status >= 400), strings.Join(before, ","), strings.Join(after, ","),
					hs(fmt.Sprintf("%s copy of an object with ACL and metadata bucket=%q key=%q status=%d", kind, db, "x/y", r.Status)))
				before = after
			}
			for j := 0; j < length; j++ {
				b := buckets[rng.Intn(len(buckets))]
				if rng.Intn(12) == 0 {
					b = []string{"_meta", ".", "..", "metadata"}[rng.Intn(4)]
				}
				k := c10Keys[rng.Intn(len(c10Keys))]
				w := rng.Intn(100)
				forceForm := false
				if j == len(c10Scratch)+2 {
					// ... and deletes a key below the zero-byte object "a" (never written; nothing may happen to "a")
					b, w, k = buckets[0], 40, "a/b"
				}
				if j == len(c10Scratch)+3 {
					// ... and uploads a key whose first segment is the name of its own bucket
					b, w, k = buckets[0], 0, buckets[0]+"/x"
				}
				if j < len(c10Scratch)+2 {
					// every history opens by storing the names a careless backend might use for the scratch copy of
					// an upload of "n", then uploads "n" (they are keys of their own), then uploads "/lead" through
					// the browser form ("lead" is another key)
					b, w = buckets[0], 0
					switch {
					case j < len(c10Scratch):
						k = c10Scratch[j]
					case j == len(c10Scratch):
						k = "n"
					default:
						k, forceForm = "/lead", true
					}
				}
				ek := k
				addressed := c10Addressed(b, ek)
				var r Resp
				switch {
				case w < 40:
					var m []KV
					if rng.Intn(3) > 0 {
						m = []KV{{"X-Amz-Meta-Op", fmt.Sprintf("%d-%d", i, j)}}
						if rng.Bool() {
							m = append(m, KV{"Content-Type", fmt.Sprintf("text/x-%d", j)})
						}
						if rng.Intn(3) == 0 {
							m = append(m, KV{"X-Amz-Acl", []string{"public-read", "private"}[rng.Intn(2)]}) // stored and returned like any x-amz header, but never copied
						}
					}
					body := []byte(fmt.Sprintf("body-%d-%d", i, j))
					if rng.Intn(5) == 0 {
						body = []byte{} // a zero-byte object is an object, not an empty directory
					}
					if forceForm || (rng.Intn(5) == 0 && j >= len(c10Scratch)+2) {
						// the same upload as a browser form: the key travels in a form field, byte for byte
						r = s.PostForm(b, k, body, m)
					} else {
						r = s.Put(b, k, body, m)
					}
					if r.Status >= 200 && r.Status < 300 {
						stored[b] = append(stored[b], k)
					}
				case w < 55:
					r = s.Delete(b, k)
				case w < 63:
					r = s.Get(b, k, "")
					addressed = nil
				case w < 82:
					// copy: mostly from a key that holds an object (with whatever headers it was uploaded with)
					sb := buckets[rng.Intn(len(buckets))]
					sk := c10Keys[rng.Intn(len(c10Keys))]
					if len(stored[sb]) > 0 && rng.Intn(4) > 0 {
						sk = stored[sb][rng.Intn(len(stored[sb]))]
					}
					if rng.Intn(6) == 0 && len(stored[sb]) > 0 {
						// a source "bucket" that is none, spelling a path to a stored object: nothing to copy
						real := sb + "/" + stored[sb][rng.Intn(len(stored[sb]))]
						sb = []string{".", "..", "buckets", "metadata", "_meta", "./" + sb}[rng.Intn(6)]
						sk = real
						if sb == ".." || sb == "buckets" {
							sk = "buckets/" + real
						}
						r = s.Copy(sb, sk, b, k)
						msg := fmt.Sprintf("%s copy from source bucket %q key %q (no such bucket) to %q/%q answers %d", kind, sb, sk, b, k, r.Status)
						if r.Status < 400 {
							emit("c10", "BAD", hs("S:copy-served-from-a-name-that-is-no-bucket "+msg))
						} else {
							emit("c10", "GOOD", hs(msg))
						}
						break
					}
					r = s.Copy(sb, sk, b, k)
					if r.Status == 200 {
						stored[b] = append(stored[b], k)
					}
				case w < 88:
					// the keys of a multi-delete travel in the request body, byte for byte: "/x" is not "x"
					if len(stored[b]) > 0 && rng.Intn(2) == 0 {
						k = "/" + stored[b][rng.Intn(len(stored[b]))]
						addressed = c10Addressed(b, k)
					}
					r = s.MultiDelete(b, []KV{{K: k}})
				case w < 92:
					if isSingle(kind) {
						continue
					}
					r = s.MkBucket(b)
					addressed = []string{"e|" + b + "|", "l|" + b + "|", "p|" + b + "|", "o|" + b + "|", "b|" + b + "\x00", "f|" + b + "|", "u|" + b + "|"}
				case w < 95:
					if isSingle(kind) {
						continue
					}
					r = s.RmBucket(b)
					addressed = []string{"e|" + b + "|", "l|" + b + "|", "p|" + b + "|", "o|" + b + "|", "b|" + b + "\x00", "f|" + b + "|", "u|" + b + "|"}
				case w < 97:
					// multipart: start an upload on the key and give it a part ...
					if id := s.Initiate(b, k, nil); id != "" {
						s.UploadPart(b, k, id, 1, []byte(fmt.Sprintf("part-%d-%d", i, j)))
						pending = append(pending, [3]string{b, k, id})
					}
				case w < 99 && len(pending) > 0:
					// ... and use the id of an upload through ANOTHER key of its bucket: whatever the request
					// (part upload, part listing, abort, complete), it is not this key's upload
					u := pending[rng.Intn(len(pending))]
					b = u[0]
					if k == u[1] {
						k = k + "-other"
					}
					addressed = c10Addressed(b, k)
					switch rng.Intn(4) {
					case 0:
						s.UploadPart(b, k, u[2], 1, []byte("intruder"))
						r = Resp{Status: 404} // the frame below demands "nothing changed" for any answer but success on this key's own upload
					case 1:
						r = s.ListParts(b, k, u[2], -1, -1).Resp
					case 2:
						r = s.Abort(b, k, u[2])
					default:
						r = s.Complete(b, k, u[2], []CPart{{1, "\"00000000000000000000000000000000\""}})
					}
					if r.Status < 400 {
						emit("c10", "BAD", hs(fmt.Sprintf("S:upload-of-another-key-addressed %s: a multipart request for key %q with the upload id of key %q answers %d", kind, k, u[1], r.Status)))
					}
				default:
					if rng.Intn(3) > 0 {
						// a listing is addressed to its bucket whatever its prefix spells: what it shows are keys
						// (and groups of keys) of that bucket that begin with the prefix
						other := buckets[rng.Intn(len(buckets))]
						pre := []string{"../" + other + "/", "../", "./", "a/../", "../../metadata/" + other + "/", "../../buckets/" + other + "/", other + "/", "..", "a/./", ".hid"}[rng.Intn(10)] // (a prefix that begins with the delimiter is outside the scope of the listing properties: D32)
						if len(stored[b]) > 0 && rng.Bool() {
							// the beginning of a stored key: everything stored under it has to be shown, too
							if sk := stored[b][rng.Intn(len(stored[b]))]; !strings.HasPrefix(sk, "/") {
								pre = sk[:1+rng.Intn(len(sk))]
							}
						}
						listCheck(b, pre, []string{"/", ""}[rng.Intn(2)], rng.Bool())
						addressed = nil
						break
					}
					s.List(ListReq{Bucket: b, MaxKeys: -1})
					addressed = nil
				}
				after := c10Snapshot(s, probe)
				refused := r.Status >= 400 || r.Panic != ""
				emit("c10", "FRAME", joinHex(addressed), boolField(refused || addressed == nil), strings.Join(before, ","), strings.Join(after, ","),
					hs(fmt.Sprintf("%s bucket=%q key=%q status=%d", kind, b, k, r.Status)))
				nontrivial(fmt.Sprint(kind, b, k, r.Status))
				before = after
			}
			// an upload to a key that lies above or below a stored key (a directory to the fs backends): refused or
			// stored, never at the cost of the key that was there
			c02Nesting(s, buckets[0])
			// listings whose prefix spells a path to another bucket or to the backend's own directories, from every bucket
			for bi, lb := range buckets[:min(2, len(buckets))] {
				other := buckets[(bi+1)%len(buckets)]
				for pi, pre := range []string{"../" + other + "/", "../", "./", "a/../", "../../metadata/" + other + "/", "../../buckets/" + other + "/", other + "/", "..", "a/./", ".hid", "../" + other, "a/../../" + other + "/"} {
					listCheck(lb, pre, []string{"/", ""}[(pi+i)%2], pi%3 == 0)
				}
			}
			// every key held at the end, looked for under the beginning of its own name
			for _, lb := range buckets[:min(2, len(buckets))] {
				seen := map[string]bool{}
				for _, sk := range stored[lb] {
					if pre := sk[:min(2, len(sk))]; !seen[pre] && !strings.HasPrefix(sk, "/") && utf8.ValidString(pre) {
						seen[pre] = true
						listCheck(lb, pre, "/", len(seen)%3 == 0)
						listCheck(lb, pre, "", len(seen)%3 == 1)
					}
				}
			}
			if kind == "mem" && s.st.Ext == nil {
				// (outside the model, in a bucket of its own) every version of one key removed by its id, newest
				// first or oldest first: the key next to it stays readable and listed
				vb := "bkver"
				do(s.h, Req{Method: "PUT", Path: "/" + vb})
				do(s.h, Req{Method: "PUT", Path: "/" + vb + "?versioning", Body: []byte("<VersioningConfiguration><Status>Enabled</Status></VersioningConfiguration>")})
				do(s.h, Req{Method: "PUT", Path: "/" + vb + "/bystander", Body: []byte("never addressed again")})
				var vids []string
				for n := 0; n < 2+i%2; n++ {
					pr := do(s.h, Req{Method: "PUT", Path: "/" + vb + "/gone", Body: []byte(fmt.Sprint("version ", n))})
					vids = append(vids, pr.Header.Get("X-Amz-Version-Id"))
				}
				if i%4 < 2 {
					for l, r := 0, len(vids)-1; l < r; l, r = l+1, r-1 {
						vids[l], vids[r] = vids[r], vids[l]
					}
				}
				var dst []int
				for _, v := range vids {
					dst = append(dst, do(s.h, Req{Method: "DELETE", Path: "/" + vb + "/gone?versionId=" + queryEscape(v)}).Status)
				}
				lr := do(s.h, Req{Method: "GET", Path: "/" + vb})
				l2 := do(s.h, Req{Method: "GET", Path: "/" + vb + "?list-type=2&prefix=b"})
				gr := do(s.h, Req{Method: "GET", Path: "/" + vb + "/bystander"})
				g2 := do(s.h, Req{Method: "GET", Path: "/" + vb + "/gone"})
				lk := xmlContentsKeys(string(lr.Body))
				msg := fmt.Sprintf("%s: bucket %q holds \"bystander\" and %d versions of \"gone\"; the versions deleted by id (%v): the bucket listing answers %d %s keys %q, the V2 listing under prefix b %d, GET bystander %d %q, GET gone %d", kind, vb, len(vids), dst, lr.Status, lr.Panic, lk, l2.Status, gr.Status, gr.Body, g2.Status)
				if lr.Status == 200 && l2.Status == 200 && len(lk) == 1 && lk[0] == "bystander" && gr.Status == 200 && string(gr.Body) == "never addressed again" && g2.Status == 404 {
					emit("c10", "GOOD", hs(msg))
				} else {
					emit("c10", "BAD", hs("S:another-key-unlistable-after-versions-deleted-by-id "+msg))
				}
				// and the bucket can be emptied and removed again
				for _, vr := range xmlAll(string(do(s.h, Req{Method: "GET", Path: "/" + vb + "?versions"}).Body), "VersionId") {
					do(s.h, Req{Method: "DELETE", Path: "/" + vb + "/bystander?versionId=" + queryEscape(vr)})
				}
				if rr := do(s.h, Req{Method: "DELETE", Path: "/" + vb}); rr.Status != 204 {
					emit("c10", "BAD", hs(fmt.Sprintf("S:bucket-with-no-version-left-cannot-be-removed %s: bucket %q, every version of every key deleted by id: DELETE of the bucket answers %d", kind, vb, rr.Status)))
					do(s.h, Req{Method: "DELETE", Path: "/" + vb, Header: [][2]string{{"x-minio-force-delete", "true"}}})
				}
				nontrivial(fmt.Sprint(kind, "versions-deleted-by-id", i%4))
			}
			if !isSingle(kind) && s.st.Ext == nil {
				// last step (the model has no such operation): Minio's force-delete of a bucket with content.
				// Whatever it answers, only that bucket may change.
				fb := buckets[i%2]
				// (it holds keys that are named like other buckets, and keys below such names)
				s.Put(fb, buckets[(i+1)%2]+"/x", []byte("below the name of another bucket"), nil)
				s.Put(fb, "bkc2", []byte("named like another bucket"), nil)
				s.Put(fb, "bkc.x/n", []byte("named like an object of another bucket"), nil)
				before = c10Snapshot(s, probe)
				rq := Req{Method: "DELETE", Path: "/" + fb, Header: [][2]string{{"x-minio-force-delete", "true"}}}
				r := do(s.h, rq)
				after := c10Snapshot(s, probe)
				emit("c10", "FRAME", joinHex([]string{"e|" + fb + "|", "l|" + fb + "|", "p|" + fb + "|", "o|" + fb + "|", "b|" + fb + "\x00", "f|" + fb + "|", "u|" + fb + "|"}), "0", strings.Join(before, ","), strings.Join(after, ","),
					hs(fmt.Sprintf("%s force-delete of bucket %q status=%d", kind, fb, r.Status)))
			}
			s.end()
		}
	}
	sample("per backend: histories of put / delete / get / copy / multi-delete / create-bucket / delete-bucket / list addressed to 3 buckets (plus the names _meta . .. metadata) x 25 hostile keys (.. ../bkb/a ../../buckets_evil/x a//b ./a a/./b a/../n .hidden x\\\\y a_b a\\\\b x/y x_y A %2e%2e/z _meta metadata .modtime-resolution buckets/bkb/a UTF-8 254-byte segment ...); after every operation a snapshot of every probe (HEAD+list of 7 bucket names, GET of every hostile key in each incl. ETag, body and metadata, bucket list, and for real-directory backends every file on disk classified by bucket root) is compared with the snapshot before")
}
