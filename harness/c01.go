package main

import (
	"bytes"
	"crypto/md5"
	"encoding/hex"
	"fmt"
	"io"
	"mime/multipart"
	"net/http"
	"strconv"
	"strings"
	"time"

	"github.com/johannesboyne/gofakes3"
)

func init() { runners["c01"] = runC01 }

// browser-form POST upload
func (s *Sess) PostForm(b, k string, body []byte, m []KV) Resp {
	var buf bytes.Buffer
	mw := multipart.NewWriter(&buf)
	mw.WriteField("key", k)
	for _, kv := range m {
		mw.WriteField(kv.K, kv.V)
	}
	fw, _ := mw.CreateFormFile("file", "upload.bin")
	fw.Write(body)
	mw.Close()
	r := do(s.h, Req{Method: "POST", Path: "/" + pathEscape(b), Body: buf.Bytes(), Header: [][2]string{{"Content-Type", mw.FormDataContentType()}}})
	// the model sees it as a put of (key, body, metadata)
	s.emitOp("put", []string{hs(b), hs(k), hx(body), metaArg(m)}, obsT{r: r})
	return r
}

// the same operations through the Go Backend API, reported in the shape of HTTP observations
func (s *Sess) apiPut(b, k string, body []byte, m []KV) {
	var meta map[string]string // nil when there is nothing to store, as a caller of the Go API would pass it
	for _, kv := range m {
		if meta == nil {
			meta = map[string]string{}
		}
		meta[http.CanonicalHeaderKey(kv.K)] = kv.V
	}
	var r Resp
	func() {
		defer func() {
			if p := recover(); p != nil {
				r.Panic = fmt.Sprint(p)
			}
		}()
		_, err := s.st.Backend.PutObject(b, k, meta, bytes.NewReader(body), int64(len(body)))
		r.Status = 200
		r.Header = http.Header{}
		if err != nil {
			r.Status = 500
		}
	}()
	// ETag is not returned by the Backend API: take it from the object's hash
	if r.Status == 200 {
		if o, err := s.st.Backend.HeadObject(b, k); err == nil {
			r.Header.Set("ETag", `"`+hex.EncodeToString(o.Hash)+`"`)
			o.Contents.Close()
		}
	}
	s.emitOp("put", []string{hs(b), hs(k), hx(body), metaArg(m)}, obsT{r: r})
}

func (s *Sess) apiGet(b, k string, head bool) {
	var r Resp
	r.Header = http.Header{}
	func() {
		defer func() {
			if p := recover(); p != nil {
				r.Panic = fmt.Sprint(p)
			}
		}()
		var err error
		if head {
			o, e := s.st.Backend.HeadObject(b, k)
			err = e
			if e == nil {
				r.Header.Set("ETag", `"`+hex.EncodeToString(o.Hash)+`"`)
				r.Header.Set("Content-Length", strconv.FormatInt(o.Size, 10))
				for mk, mv := range o.Metadata {
					r.Header.Set(mk, mv)
				}
				o.Contents.Close()
			}
		} else {
			o, e := s.st.Backend.GetObject(b, k, nil)
			err = e
			if e == nil {
				r.Body, _ = io.ReadAll(o.Contents)
				o.Contents.Close()
				r.Header.Set("ETag", `"`+hex.EncodeToString(o.Hash)+`"`)
				r.Header.Set("Content-Length", strconv.FormatInt(o.Size, 10))
				for mk, mv := range o.Metadata {
					r.Header.Set(mk, mv)
				}
			}
		}
		r.Status = 200
		if err != nil {
			r.Status = 404
			r.Body = []byte("<Code>NoSuchKey</Code>")
		}
	}()
	name := "get"
	if head {
		name = "head"
	}
	s.emitOp(name, []string{hs(b), hs(k), "-"}, obsT{r: r})
}

// apiPutReusedBuffer: an upload through the Go API from a *bytes.Buffer that the caller fills again
// afterwards (a pooled buffer): the stored object is a copy of what was uploaded
func (s *Sess) apiPutReusedBuffer(b, k string, body, next []byte) {
	if s.st.Ext != nil || s.st.Backend == nil {
		return
	}
	buf := bytes.NewBuffer(make([]byte, 0, len(body)+len(next)+16))
	buf.Write(body)
	_, err := s.st.Backend.PutObject(b, k, map[string]string{}, buf, int64(len(body)))
	r := Resp{Status: 200, Header: http.Header{}}
	if err != nil {
		r.Status = 500
	} else if o, e := s.st.Backend.HeadObject(b, k); e == nil {
		r.Header.Set("ETag", `"`+hex.EncodeToString(o.Hash)+`"`)
		o.Contents.Close()
	}
	s.emitOp("put", []string{hs(b), hs(k), hx(body), metaArg(nil)}, obsT{r: r})
	buf.Reset()
	buf.Write(next) // the caller's buffer goes on to other uses
	s.Get(b, k, "")
	s.Head(b, k, "")
}

// apiPutReusedMap: the metadata map handed to Backend.PutObject is the caller's. A caller that fills one map
// and uses it for two uploads, or changes it afterwards, has sent each upload what the map held at that
// call: the stored objects do not follow the map around, and what an upload inherited from the object it
// replaced is not passed on to the next key through the caller's map.
func (s *Sess) apiPutReusedMap(b string) {
	if s.st.Ext != nil || s.st.Backend == nil {
		return
	}
	s.Put(b, "alias/old", []byte("predecessor"), []KV{{"X-Amz-Meta-Old", "o"}})
	m := map[string]string{"X-Amz-Meta-A": "1"}
	put := func(k string, body []byte, sent []KV) {
		_, err := s.st.Backend.PutObject(b, k, m, bytes.NewReader(body), int64(len(body)))
		r := Resp{Status: 200, Header: http.Header{}}
		if err != nil {
			r.Status = 500
		} else if o, e := s.st.Backend.HeadObject(b, k); e == nil {
			r.Header.Set("ETag", `"`+hex.EncodeToString(o.Hash)+`"`)
			o.Contents.Close()
		}
		s.emitOp("put", []string{hs(b), hs(k), hx(body), metaArg(sent)}, obsT{r: r})
	}
	put("alias/old", []byte("replaces the predecessor"), []KV{{"X-Amz-Meta-A", "1"}}) // inherits Old from what it replaces
	for k := range m {
		if k != "X-Amz-Meta-A" {
			delete(m, k) // (whatever the backend left in the caller's map is not what the caller sends next)
		}
	}
	put("alias/new", []byte("a new key, same map"), []KV{{"X-Amz-Meta-A", "1"}})
	m["X-Amz-Meta-A"] = "changed afterwards"
	m["X-Amz-Meta-B"] = "added afterwards"
	for _, k := range []string{"alias/old", "alias/new"} {
		s.Get(b, k, "")
		s.Head(b, k, "")
	}
}

// heldRead: an object is what it was when it was opened. A reader that holds the result of GetObject
// (size, hash, metadata and a body stream; the HTTP handler streams the same way after the backend
// call has returned) while the key is overwritten reads the bytes its size and hash describe.
func (s *Sess) heldRead(b, k string, next []byte) {
	if s.st.Ext != nil || s.st.Backend == nil {
		return
	}
	o, err := s.st.Backend.GetObject(b, k, nil)
	if err != nil {
		return
	}
	s.Put(b, k, next, nil) // acknowledged while the first read is still open
	// ... and so are a number of writes to other keys (a store that hands out its own pages instead of a
	// copy gets to reuse them)
	pad := make([]byte, 40<<10)
	for i := range pad {
		pad[i] = byte(i*31 + len(next))
	}
	for i := 0; i < 8; i++ {
		do(s.h, Req{Method: "PUT", Path: "/" + pathEscape(b) + "/held-pad/" + strconv.Itoa(i), Body: pad})
	}
	for i := 0; i < 8; i++ {
		do(s.h, Req{Method: "DELETE", Path: "/" + pathEscape(b) + "/held-pad/" + strconv.Itoa(i)})
	}
	got, rerr := readAllGuarded(o.Contents)
	o.Contents.Close()
	sum := md5.Sum(got)
	msg := fmt.Sprintf("%s: object %q opened (size %d, hash %x), overwritten with %d other bytes, then read: %d bytes with digest %x (read error: %v)", s.kind, k, o.Size, o.Hash, len(next), len(got), sum, rerr)
	if rerr == nil && int64(len(got)) == o.Size && bytes.Equal(sum[:], o.Hash) {
		emit(s.prop, "GOOD", hs(msg))
	} else {
		emit(s.prop, "BAD", hs("S:body-differs-from-the-entity-it-was-opened-as "+msg))
	}
	s.Get(b, k, "")
}

// recycledBucketPut: an upload that is acknowledged is there, also when its bucket was deleted and
// created again while the body was still on its way (a second client recycling an empty bucket)
func (s *Sess) recycledBucketPut(body []byte) {
	if s.st.Ext != nil || isSingle(s.kind) {
		return
	}
	rb := "recycled"
	if r := do(s.h, Req{Method: "PUT", Path: "/" + rb}); r.Status != 200 {
		return
	}
	gr := &gatedReader{data: append([]byte{}, body...), entered: make(chan struct{}), release: make(chan struct{})}
	done := make(chan Resp, 1)
	go func() {
		done <- do(s.h, Req{Method: "PUT", Path: "/" + rb + "/first", Reader: gr, Header: [][2]string{{"Content-Length", strconv.Itoa(len(body))}}})
	}()
	entered := waitOr(gr.entered, 5*time.Second)
	var d, c Resp
	if entered {
		d = do(s.h, Req{Method: "DELETE", Path: "/" + rb})
		c = do(s.h, Req{Method: "PUT", Path: "/" + rb})
	}
	close(gr.release)
	var r Resp
	select {
	case r = <-done:
	case <-time.After(10 * time.Second):
		emit(s.prop, "HANG", hs(s.kind+": an upload whose bucket was recycled while its body arrived never completed"))
		return
	}
	g := do(s.h, Req{Method: "GET", Path: "/" + rb + "/first"})
	msg := fmt.Sprintf("%s: PUT %s/first with a slow body of %d bytes; meanwhile DELETE bucket (%d) and PUT bucket (%d); the upload answers %d; GET answers %d with %d bytes", s.kind, rb, len(body), d.Status, c.Status, r.Status, g.Status, len(g.Body))
	if r.Status != 200 || (g.Status == 200 && bytes.Equal(g.Body, body)) {
		emit(s.prop, "GOOD", hs(msg))
	} else {
		emit(s.prop, "BAD", hs("S:acknowledged-upload-not-readable "+msg))
	}
	do(s.h, Req{Method: "DELETE", Path: "/" + rb + "/first"})
	do(s.h, Req{Method: "DELETE", Path: "/" + rb})
}

func runC01(tier string, seed uint64) {
	rng := NewRng(seed)
	sizes := []int{0, 1, 2, 63, 64, 65, 4095, 4096, 4097, 32767, 32768, 32769}
	big := []int{1<<20 + 1}
	if tier == "thorough" {
		big = append(big, 5<<20+3)
	}
	keys := []string{"plain", "nested/dir/obj.txt", "sp ace+plus", "uni/\xe2\x82\xac\xc3\xbc", "q?uery&amp=1", "pct%41%2F", "semi;colon,comma", strings.Repeat("L", 200) + "/" + strings.Repeat("m", 200),
		" padded with blanks ", "tab\tand trailing blank ", // white space is part of a key, wherever it stands
		strings.Repeat("\xc3\xa9", 115), "m\xc3\xbc/" + strings.Repeat("\xe6\x97\xa5", 80) + "/x"} // segments of 230 and 240 bytes in 115 and 80 characters
	metas := [][]KV{
		nil,
		{{"Content-Type", "application/x-verif"}, {"X-Amz-Meta-One", "1"}},
		{{"Content-Type", "application/x-verif"}, {"X-Amz-Meta-One", ""}, {"X-Amz-Meta-Sym", ""}}, // empty values are values too
		{{"Content-Type", "text/plain; charset=utf-8"}, {"Content-Encoding", "gzip"}, {"Content-Disposition", `attachment; filename="a b.txt"`}, {"X-Amz-Meta-Long", strings.Repeat("v", 900)}, {"X-Amz-Meta-Sym", "a=b;c, d"}},
	}
	// media types that are valid but not spelt the way a formatter would spell them: a stored header is
	// what was sent, byte for byte
	for _, ct := range []string{"application/x-www-form-urlencoded", "multipart/form-data; boundary=zzz", "text/html;charset=utf-8", "Text/Plain", `application/json; charset="utf-8"`, "text/plain; format=flowed; charset=us-ascii", "text/plain;  charset=UTF-8",
		"APPLICATION/X-Verif; Q=1", "text/plain ; charset=utf-8", "multipart/mixed; boundary=\"a b\"", "text/x-a;b=c;a=d", "not a media type at all", "text/plain;"} {
		metas = append(metas, []KV{{"Content-Type", ct}, {"Content-Disposition", "ATTACHMENT;filename=x.txt"}, {"Content-Encoding", "GZip"}, {"X-Amz-Meta-Ct", ct}})
	}
	for _, kind := range allKinds {
		for _, noInt := range []bool{false, true} {
			s := newSess("c01", kind, SessOpts{NoIntegrity: noInt})
			b := singleBucketName
			src := b // the bucket copies are made from: another one where the backend has several
			if !isSingle(kind) {
				s.MkBucket(b)
				src = "bkt-src"
				s.MkBucket(src)
			}
			n := 0
			round := func(k string, body []byte, m []KV, how int) {
				switch how {
				case 0:
					var hdr []KV
					hdr = append(hdr, m...)
					if !noInt && rng.Bool() {
						hdr = append(hdr, KV{"Content-MD5", b64md5(body)})
					}
					s.PutWithHeaders(b, k, body, m, hdr)
				case 1:
					s.PostForm(b, k, body, m)
				case 2:
					// every third copy comes from the other bucket, where an object of the destination's name
					// exists too (it has to stay what it is)
					sb := b
					if n%3 == 2 && src != b {
						sb = src
						s.Put(sb, k, []byte("the namesake in the source bucket"), nil)
					}
					s.Put(sb, k+".src", body, m)
					if n%2 == 0 {
						s.Copy(sb, k+".src", b, k)
					} else {
						// the copy request names metadata of its own: it wins at the destination, the
						// source keeps what it was uploaded with
						s.CopyWith(sb, k+".src", b, k, []KV{{"Content-Type", "application/x-copied"}, {"X-Amz-Meta-One", "overridden"}, {"X-Amz-Meta-Copy", fmt.Sprint(n)}})
					}
					s.Get(sb, k+".src", "")
					s.Head(sb, k+".src", "")
					if sb != b {
						s.Get(sb, k, "")
					}
				case 3:
					s.apiPut(b, k, body, m)
				case 4:
					// aws-chunked PUT with the same metadata (plus content codings the server must hand back as sent)
					mm := append([]KV{}, m...)
					hasEnc := false
					for _, kv := range mm {
						if kv.K == "Content-Encoding" {
							hasEnc = true
						}
					}
					if !hasEnc {
						mm = append(mm, KV{"Content-Encoding", []string{"deflate", "aws-chunked,gzip", "compress", "identity"}[n%4]})
					}
					s.ChunkedPutMeta(b, k, body, []int{4096}, nil, n%2 == 0, len(body), mm)
				}
				s.Get(b, k, "")
				s.Head(b, k, "")
				if how == 3 {
					s.apiGet(b, k, false)
					s.apiGet(b, k, true)
				}
				if n%5 == 0 {
					s.List(ListReq{Bucket: b, Prefix: k, MaxKeys: -1})
				}
				n++
				nontrivial(fmt.Sprint(kind, noInt, how, len(body), k))
			}
			for i, sz := range sizes {
				body := rng.Bytes(sz)
				for how := 0; how < 5; how++ {
					if how == 1 && sz == 0 {
						// browser form with an empty file still uploads an empty object
					}
					round(keys[(i+how)%len(keys)], body, metas[(i+2*how)%len(metas)], how) // every key is overwritten under each metadata set in turn
				}
			}
			for _, k := range keys {
				round(k, rng.Bytes(100+rng.Intn(50)), metas[rng.Intn(len(metas))], rng.Intn(5))
			}
			for mi := 4; mi < len(metas); mi++ {
				round(fmt.Sprintf("content-type/%d", mi), rng.Bytes(20), metas[mi], []int{0, 1, 3, 0}[mi%4])
			}
			if !noInt {
				for _, sz := range big {
					round("big/object", rng.Bytes(sz), metas[1], 0)
				}
			}
			// keys that would collide under a careless normalisation stay distinct objects
			groups := [][]string{{"tw/in", "tw_in", "tw\\in"}, {"Case", "case", "CASE"}, {"s p", "s+p", "s%20p"}, {"dot.", "dot", "dot.."}}
			if kind == "mem" || kind == "bolt" {
				// the key-value backends store keys as they come: a key that begins with slashes is another key
				// (the fs backends refuse an empty path segment)
				groups = append(groups, []string{"lead", "/lead", "//lead"}, []string{"in/ner", "in//ner", "/in/ner"})
			}
			pathStyle := s.h
			if noInt && s.st.Ext == nil {
				// every second store addresses its twins virtual-host style: the key is what follows the
				// bucket's host, byte for byte, exactly as it is what follows "/<bucket>/" in path style
				hopt := gofakes3.WithHostBucketBase("s3.example.com")
				if kind == "bolt" || kind == "fsdir" {
					hopt = gofakes3.WithHostBucket(true)
				}
				s.h = hostStyle{inner: newServer(s.st.Backend, hopt, gofakes3.WithIntegrityCheck(false)), base: "s3.example.com"}
			}
			for gi, grp := range groups {
				for ti, k := range grp {
					s.Put(b, k, []byte(fmt.Sprintf("twin-%d-%d-%s", gi, ti, k)), []KV{{"X-Amz-Meta-Twin", fmt.Sprintf("%d-%d", gi, ti)}, {"Content-Type", fmt.Sprintf("text/x-twin%d", ti)}})
				}
				for _, k := range grp {
					s.Get(b, k, "")
					s.Head(b, k, "")
				}
				s.Put(b, grp[0], []byte("rewritten"), []KV{{"X-Amz-Meta-Twin", "rewritten"}})
				s.Delete(b, grp[1])
				for _, k := range grp {
					s.Get(b, k, "")
				}
				nontrivial(fmt.Sprint(kind, noInt, "twins", gi))
			}
			s.h = pathStyle
			// the same bytes uploaded again under other metadata (PUT, form POST, copy onto itself, Go API; also
			// an empty body): an upload is its body and its headers, and the later upload is the one served
			for si, sb := range [][]byte{rng.Bytes(300), {}} {
				sk := fmt.Sprintf("same-bytes/%d", si)
				round(sk, sb, metas[1], 0)
				round(sk, sb, metas[3], 0)
				round(sk, sb, metas[1], 1)
				round(sk, sb, metas[3], 4)
				round(sk, sb, metas[1], 3)
				round(sk, sb, metas[2], 3)
				s.CopyWith(b, sk, b, sk, []KV{{"X-Amz-Meta-One", "changed-in-place"}, {"Content-Type", "text/x-in-place"}})
				s.Get(b, sk, "")
				s.Head(b, sk, "")
				round(sk, sb, nil, 0)
			}
			// header values are bytes: HTTP allows any byte above 0x7f in one (Latin-1 text from older clients),
			// and what was sent is what comes back
			{
				obs := []KV{{"X-Amz-Meta-Name", "caf\xe9"}, {"Content-Disposition", "attachment; filename=\"na\xefve \xff.txt\""}, {"X-Amz-Meta-Utf8", "caf\xc3\xa9"}}
				round("obs-text", rng.Bytes(40), obs, 0)
				round("obs-text", rng.Bytes(41), obs, 3)
				round("obs-text", rng.Bytes(42), obs, 2)
			}
			s.apiPutReusedMap(b)
			s.recycledBucketPut(rng.Bytes(3000))
			// uploads through the Go API from a buffer that is reused afterwards
			s.apiPutReusedBuffer(b, "pooled/1", []byte("first use of the pooled buffer"), []byte("SECOND USE OF THE POOLED BUFFER!!"))
			s.apiPutReusedBuffer(b, "pooled/2", rng.Bytes(5000), rng.Bytes(5000))
			// a read that is still open while its key is overwritten (bodies above and below the copy buffer)
			for hi, sz := range []int{10, 70000} {
				hk := fmt.Sprintf("held/%d", hi)
				s.Put(b, hk, rng.Bytes(sz), []KV{{"X-Amz-Meta-Held", "1"}})
				s.heldRead(b, hk, rng.Bytes(sz/2+3))
				s.heldRead(b, hk, rng.Bytes(sz+5))
			}
			// an acknowledged object stays served when keys one and two levels below it are uploaded
			c02Nesting(s, b)
			// later operations on other keys leave the answer unchanged
			s.Put(b, "other", []byte("x"), nil)
			s.Delete(b, "other")
			s.Get(b, keys[0], "")
			s.Head(b, keys[1], "")
			s.end()
		}
	}
	sample("per backend x integrity on/off: bodies of 0,1,2,63..65,4095..4097,32767..32769 random bytes (and 1 MiB+1; 5 MiB+3 thorough) x 8 keys (spaces, '+', UTF-8, '?', '&', '%41%2F', ';', ',', 401 bytes nested) x 4 metadata sets (none; type + x-amz-meta; the same headers with empty values; type+encoding+disposition+900-byte value), every key overwritten under each set in turn, uploaded by PUT (with/without Content-MD5), aws-chunked PUT (with content codings), browser-form POST, copy (plain, and with metadata headers of its own, the source re-read afterwards), and Backend.PutObject; each followed by GET and HEAD (HTTP and Backend API) and a listing of the key; groups of keys that differ only by '/', '_', '\\', case, ' ', '+', '%20', trailing '.' each get their own body and metadata, are read back, one is rewritten, one deleted, all read again")
}
