package main

import (
	"bytes"
	"fmt"
	"io"
	"strconv"
	"strings"

	"github.com/johannesboyne/gofakes3"
)

func init() { runners["c12"] = runC12 }

// fragReader returns at most sched[i] bytes on the i-th call (uncapped once the schedule
// is exhausted); optionally delivers io.EOF together with the last data.
type fragReader struct {
	data    []byte
	sched   []int
	eofWith bool
}

func (f *fragReader) Read(p []byte) (int, error) {
	if len(f.data) == 0 {
		return 0, io.EOF
	}
	n := len(p)
	if len(f.sched) > 0 {
		c := f.sched[0]
		if c < 1 {
			c = 1
		}
		if c < n {
			n = c
		}
		f.sched = f.sched[1:]
	}
	if n > len(f.data) {
		n = len(f.data)
	}
	copy(p, f.data[:n])
	f.data = f.data[n:]
	if len(f.data) == 0 && f.eofWith {
		return n, io.EOF
	}
	return n, nil
}

const chunkSig = "chunk-signature=0123456789abcdef0123456789abcdef0123456789abcdef0123456789abcdef"

var encodeCalls int

// encodeChunks frames the chunks; every other stream spells its chunk sizes with upper-case hex digits
// (a hexadecimal numeral is one in either case)
func encodeChunks(chunks [][]byte) []byte {
	var b bytes.Buffer
	encodeCalls++
	for _, c := range chunks {
		if encodeCalls%2 == 0 {
			fmt.Fprintf(&b, "%X;%s\r\n", len(c), chunkSig)
		} else {
			fmt.Fprintf(&b, "%x;%s\r\n", len(c), chunkSig)
		}
		b.Write(c)
		b.WriteString("\r\n")
	}
	fmt.Fprintf(&b, "0;%s\r\n\r\n", chunkSig)
	return b.Bytes()
}

func splitChunks(payload []byte, sizes []int) [][]byte {
	var out [][]byte
	i := 0
	for len(payload) > 0 {
		n := sizes[i%len(sizes)]
		if n < 1 {
			n = 1
		}
		if n > len(payload) {
			n = len(payload)
		}
		out = append(out, payload[:n])
		payload = payload[n:]
		i++
	}
	return out
}

func schedField(s []int) string {
	if len(s) == 0 {
		return "-"
	}
	o := make([]string, len(s))
	for i, v := range s {
		o[i] = strconv.Itoa(v)
	}
	return strings.Join(o, ",")
}

type onlyWriter struct{ w io.Writer }

func (o onlyWriter) Write(p []byte) (int, error) { return o.w.Write(p) }

type onlyReader struct{ r io.Reader }

func (o onlyReader) Read(p []byte) (int, error) { return o.r.Read(p) }

func c12Schedules(rng *Rng, n int) [][]int {
	ones := make([]int, n+200)
	for i := range ones {
		ones[i] = 1
	}
	halves := []int{(n + 1) / 2, n}
	var rnd []int
	for i := 0; i < 40+n/3; i++ {
		rnd = append(rnd, 1+rng.Intn(1+n/4+7))
	}
	thousand := make([]int, n/1000+200)
	for i := range thousand {
		thousand[i] = 1000
	}
	return [][]int{nil, ones, halves, rnd, thousand, {3, 1, 1, 90, 2, 2, 5000}}
}

// ChunkedPut: PUT with STREAMING-AWS4-HMAC-SHA256-PAYLOAD framing, the payload cut into chunks of the
// given sizes, the transport delivering it by the given read schedule
func (s *Sess) ChunkedPut(b, key string, payload []byte, sizes []int, sched []int, eofWith bool, declared int) Resp {
	return s.ChunkedPutMeta(b, key, payload, sizes, sched, eofWith, declared, nil)
}

// ChunkedPutMeta: the same, carrying metadata headers
func (s *Sess) ChunkedPutMeta(b, key string, payload []byte, sizes []int, sched []int, eofWith bool, declared int, m []KV) Resp {
	stream := encodeChunks(splitChunks(payload, sizes))
	fr := &fragReader{data: append([]byte{}, stream...), sched: append([]int{}, sched...), eofWith: eofWith}
	hdr := [][2]string{
		{"Content-Length", strconv.Itoa(len(stream))},
		{"X-Amz-Content-Sha256", "STREAMING-AWS4-HMAC-SHA256-PAYLOAD"},
		{"X-Amz-Decoded-Content-Length", strconv.Itoa(declared)}}
	for _, kv := range m {
		hdr = append(hdr, [2]string{kv.K, kv.V})
	}
	r := do(s.h, Req{Method: "PUT", Path: "/" + pathEscape(b) + "/" + pathEscape(key), Reader: fr, Header: hdr})
	s.emitOp("cput", []string{hs(b), hs(key), hx(stream), schedField(sched), boolField(eofWith), strconv.Itoa(declared), hx(payload), metaArg(m)}, obsT{r: r})
	return r
}

// ChunkedPutStream: the same with a hand-made stream (payload = what the stream really carries, for the model's spec clause)
func (s *Sess) ChunkedPutStream(b, key string, stream, payload []byte, sched []int, eofWith bool, declared int) Resp {
	fr := &fragReader{data: append([]byte{}, stream...), sched: append([]int{}, sched...), eofWith: eofWith}
	r := do(s.h, Req{Method: "PUT", Path: "/" + b + "/" + key, Reader: fr, Header: [][2]string{
		{"Content-Length", strconv.Itoa(len(stream))},
		{"X-Amz-Content-Sha256", "STREAMING-AWS4-HMAC-SHA256-PAYLOAD"},
		{"X-Amz-Decoded-Content-Length", strconv.Itoa(declared)}}})
	s.emitOp("cput", []string{hs(b), hs(key), hx(stream), schedField(sched), boolField(eofWith), strconv.Itoa(declared), hx(payload)}, obsT{r: r})
	return r
}

// ChunkedPutFailing: a chunked upload whose transport fails (not EOF) after k bytes of the stream. It
// must be refused for every k short of the whole stream; nothing is recorded for the model, so
// the reads that follow check that the stored state is unchanged
func (s *Sess) ChunkedPutFailing(b, key string, payload []byte, sizes []int, k int) {
	stream := encodeChunks(splitChunks(payload, sizes))
	r := do(s.h, Req{Method: "PUT", Path: "/" + b + "/" + key, Reader: &failReader{data: stream, k: k}, Header: [][2]string{
		{"Content-Length", strconv.Itoa(len(stream))},
		{"X-Amz-Content-Sha256", "STREAMING-AWS4-HMAC-SHA256-PAYLOAD"},
		{"X-Amz-Decoded-Content-Length", strconv.Itoa(len(payload))}}})
	if r.Status >= 200 && r.Status < 300 && k < len(stream) {
		emit(s.prop, "BAD", hs(fmt.Sprintf("aws-chunked upload whose transport failed after %d of %d bytes was accepted (%d)", k, len(stream), r.Status)))
	} else {
		emit(s.prop, "GOOD", hs("failing chunked upload refused"))
	}
	stat("chunked-transport-failure")
}

func runC12(tier string, seed uint64) {
	rng := NewRng(seed)
	lens := []int{0, 1, 2, 15, 16, 17, 100, 600, 4095, 4096, 4097}
	big := []int{32767, 32768, 32769, 65539}
	if tier == "thorough" {
		big = append(big, 200000)
	}
	sizeSets := [][]int{{1}, {2, 3}, {16}, {100, 1, 7}, {4096}, {70000}, {65536, 1}, {1000000}}
	// (1) the decoder driven directly with every consumer buffer
	for _, n := range append(append([]int{}, lens...), big...) {
		payload := rng.Bytes(n)
		for si, sizes := range sizeSets {
			if n > 700 && (si == 0 || si == 1 || si == 2) {
				continue // tiny chunks of a large payload: too many headers, covered by smaller payloads
			}
			if n > 5000 && si != 5 && si != 6 && si != 4 {
				continue
			}
			chunks := splitChunks(payload, sizes)
			stream := encodeChunks(chunks)
			for ci, sched := range c12Schedules(rng, len(stream)) {
				if len(stream) > 6000 && ci == 1 {
					continue // byte-at-a-time over a large stream: slow in the model, covered below 6k
				}
				for _, eofWith := range []bool{false, true} {
					if eofWith && n > 5000 && ci != 4 {
						continue
					}
					// consumer ReadAll with the exact, a short and a long declared size
					for _, size := range []int{n, n - 1, n + 1} {
						if size < 0 || (size != n && ci > 1) {
							continue
						}
						fr := &fragReader{data: append([]byte{}, stream...), sched: append([]int{}, sched...), eofWith: eofWith}
						got, err := gofakes3.ReadAll(gofakes3.VerifNewChunkedReader(fr), int64(size))
						emit("c12", "RA", hx(stream), schedField(sched), boolField(eofWith), strconv.Itoa(size), hx(payload), boolField(err == nil), hx(got))
						stat("direct-readall")
						if n > 0 {
							nontrivial(fmt.Sprint("ra", n, si, ci, eofWith, size))
						}
					}
					// consumer io.Copy-style loop with a fixed buffer
					for _, bs := range []int{1, 2, 7, 512, 32768} {
						if (bs < 512 && n > 700) || (n > 5000 && bs != 32768) {
							continue
						}
						fr := &fragReader{data: append([]byte{}, stream...), sched: append([]int{}, sched...), eofWith: eofWith}
						var out bytes.Buffer
						io.CopyBuffer(onlyWriter{&out}, onlyReader{gofakes3.VerifNewChunkedReader(fr)}, make([]byte, bs))
						emit("c12", "CP", hx(stream), schedField(sched), boolField(eofWith), strconv.Itoa(bs), hx(payload), hx(out.Bytes()))
						stat("direct-copy")
					}
				}
			}
		}
	}
	// malformed framing: truncated streams, bad size field, missing signature
	{
		payload := []byte("hello chunked world, this is a payload")
		good := encodeChunks(splitChunks(payload, []int{10}))
		var bad [][]byte
		for cut := 0; cut < len(good); cut++ {
			bad = append(bad, good[:cut]) // every cut point, the ones inside a header or a signature line included
		}
		bad = append(bad, append(append([]byte{}, good...), []byte("garbage that is not a chunk")...),
			append(append([]byte{}, good...), []byte("\r\n")...), append(append([]byte{}, good...), []byte("5")...),
			append(append([]byte{}, good...), []byte("5;")...), append(append([]byte{}, good...), good...),
			append(encodeChunks([][]byte{payload[:10]}), encodeChunks([][]byte{payload[10:]})...))
		bad = append(bad, []byte("zz;"+chunkSig+"\r\nhello\r\n0;"+chunkSig+"\r\n\r\n"),
			[]byte("5"+chunkSig+"\r\nhello\r\n"), []byte("5;short\r\nhello\r\n0;x\r\n\r\n"), []byte(";"+chunkSig+"\r\n"),
			bytes.Replace(good, []byte("a;"), []byte("9;"), 1), bytes.Replace(good, []byte("a;"), []byte("b;"), 1))
		for _, st := range bad {
			fr := &fragReader{data: append([]byte{}, st...)}
			got, err := gofakes3.ReadAll(gofakes3.VerifNewChunkedReader(fr), int64(len(payload)))
			specBad := err == nil && !bytes.Equal(got, payload) // accepted although not the payload
			emit("c12", "RM", hx(st), "-", "0", strconv.Itoa(len(payload)), boolField(err == nil), hx(got), boolField(specBad))
			stat("direct-malformed")
		}
	}
	// (2) through PUT on every backend with a fragmented transport
	for _, kind := range allKinds {
		c12ChunkedParts(kind, rng)
		s := newSess("c12", kind, SessOpts{})
		b := singleBucketName
		if !isSingle(kind) {
			s.MkBucket(b)
		}
		put := func(key string, payload []byte, sizes []int, sched []int, eofWith bool, declared int) {
			s.ChunkedPut(b, key, payload, sizes, sched, eofWith, declared)
		}
		s.Put(b, "obj", []byte("previous content"), nil)
		for _, n := range []int{0, 1, 17, 600, 4097, 65539} {
			payload := rng.Bytes(n)
			for _, sizes := range [][]int{{7}, {4096}, {70000}} {
				if n > 5000 && sizes[0] == 7 {
					continue
				}
				stream := encodeChunks(splitChunks(payload, sizes))
				for ci, sched := range c12Schedules(rng, len(stream)) {
					if len(stream) > 6000 && (ci == 1 || ci == 3) {
						continue
					}
					put("obj", payload, sizes, sched, ci%2 == 1, n)
					s.Get(b, "obj", "")
					nontrivial(fmt.Sprint(kind, n, sizes, ci))
				}
			}
			// declared decoded length off by one: must be refused, previous object intact
			put("obj", payload, []int{4096}, nil, false, n+1)
			s.Get(b, "obj", "")
			if n > 0 {
				put("obj", payload, []int{4096}, nil, false, n-1)
				s.Get(b, "obj", "")
			}
		}
		put("obj", []byte("x"), []int{1}, nil, false, -1)
		s.Get(b, "obj", "")
		// a zero-length chunk is not the end of the stream unless the transport ends there: data after it
		// counts (so the declared length 5 is wrong), and anything that is not a chunk after it is malformed
		mid := append(append(encodeChunks([][]byte{[]byte("hello")}), encodeChunks([][]byte{[]byte(" world")})...))
		s.ChunkedPutStream(b, "obj", mid, []byte("hello world"), nil, false, 5)
		s.Get(b, "obj", "")
		s.ChunkedPutStream(b, "obj", mid, []byte("hello world"), []int{3}, true, 5)
		s.Get(b, "obj", "")
		good := encodeChunks(splitChunks([]byte("trailing garbage follows"), []int{9}))
		s.ChunkedPutStream(b, "obj", append(append([]byte{}, good...), []byte("garbage that is not a chunk")...), []byte("trailing garbage follows"), nil, false, 24)
		s.Get(b, "obj", "")
		// the same malformations through the whole upload path (decoder, digest, length check): cut points
		// of a stream, and things after its closing chunk that are not chunk headers
		{
			pl := []byte("the complete payload, delivered in full")
			st := encodeChunks(splitChunks(pl, []int{13}))
			for cut := len(st) - 100; cut < len(st); cut += 3 {
				if cut > 0 {
					s.ChunkedPutStream(b, "obj", st[:cut], pl, nil, cut%2 == 0, len(pl))
				}
			}
			for _, tail := range []string{"deadbeef", "0", "00", "1f", "\r\n", "0;", "zz;", "deadbeef;" + chunkSig[:20]} {
				s.ChunkedPutStream(b, "obj", append(append([]byte{}, st...), tail...), pl, nil, false, len(pl))
			}
			s.Get(b, "obj", "")
		}
		// a streaming upload with user metadata around the server's metadata limit (2000 bytes by default; the
		// signing headers of the request count, too): accepted or refused, but what is stored is the payload
		for _, vl := range []int{1500, 1750, 1800, 1850, 1880, 1900, 1950, 2100} {
			mpl := []byte(fmt.Sprintf("payload sent with %d bytes of user metadata", vl))
			mst := encodeChunks(splitChunks(mpl, []int{11}))
			mk := fmt.Sprintf("meta-%d", vl)
			r := do(s.h, Req{Method: "PUT", Path: "/" + b + "/" + mk, Body: mst, Header: [][2]string{
				{"X-Amz-Content-Sha256", "STREAMING-AWS4-HMAC-SHA256-PAYLOAD"}, {"X-Amz-Decoded-Content-Length", strconv.Itoa(len(mpl))},
				{"X-Amz-Date", "20200102T030405Z"}, {"X-Amz-Meta-Big", strings.Repeat("m", vl)}}})
			g := do(s.h, Req{Method: "GET", Path: "/" + b + "/" + mk})
			msg := fmt.Sprintf("%s: aws-chunked upload of %d payload bytes with a %d-byte x-amz-meta value answers %d %s; GET answers %d with %d bytes", kind, len(mpl), vl, r.Status, errCode(r.Body), g.Status, len(g.Body))
			if (r.Status == 200 && g.Status == 200 && string(g.Body) == string(mpl)) || (r.Status >= 400 && g.Status == 404) {
				emit(s.prop, "GOOD", hs(msg))
			} else {
				emit(s.prop, "BAD", hs("S:stored-bytes-differ-from-the-payload "+msg))
			}
			do(s.h, Req{Method: "DELETE", Path: "/" + b + "/" + mk})
		}
		// transport failure at every point of the stream, the closing chunk and its signature line included
		pl := []byte("payload of a chunked upload that breaks off")
		st := encodeChunks(splitChunks(pl, []int{16}))
		for k := 0; k < len(st); k += 1 + len(st)/40 {
			s.ChunkedPutFailing(b, "obj", pl, []int{16}, k)
		}
		for k := len(st) - 90; k < len(st); k += 3 {
			if k >= 0 {
				s.ChunkedPutFailing(b, "obj", pl, []int{16}, k)
			}
		}
		s.Get(b, "obj", "")
		s.end()
	}
	sample("decoder driven directly: payloads of 0,1,2,15..17,100,600,4095..4097,32767..32769,65539 bytes; chunk-size patterns {1},{2,3},{16},{100,1,7},{4096},{70000},{65536,1},{10^6}; transport read schedules: uncapped, 1 byte at a time, halves, seeded random, 1000-byte reads, mixed; EOF with and without data; consumers ReadAll(exact/short/long size) and copy loops with buffers 1,2,7,512,32768")
	sample("PUT with STREAMING-AWS4-HMAC-SHA256-PAYLOAD on all six backends with the same fragmentations, GET after each, declared decoded length off by one and negative; data and garbage after a zero-length chunk; transport failures at every point of the stream incl. the closing chunk")
}

// c12ChunkedParts: the framing on the parts of a multipart upload. A part sent chunked is stored as
// its payload (the completed object is the concatenation of the payloads); a part whose decoded
// length is not the declared one is refused and not held. Verdicts computed here.
func c12ChunkedParts(kind string, rng *Rng) {
	s := newSess("c12", kind, SessOpts{})
	emit("c12", "NOMODEL")
	b := singleBucketName
	if !isSingle(kind) {
		s.MkBucket(b)
	}
	verdict := func(ok bool, what string) {
		if ok {
			emit("c12", "GOOD", hs(what))
		} else {
			emit("c12", "BAD", hs(what))
		}
	}
	id := s.Initiate(b, "mpc", nil)
	p1, p2 := rng.Bytes(7000), rng.Bytes(333)
	digest := "" // Content-MD5 of the next part, when set: the digest of the payload, not of its framing
	sendPart := func(pn int, payload []byte, sizes []int, sched []int, declared int) Resp {
		stream := encodeChunks(splitChunks(payload, sizes))
		fr := &fragReader{data: append([]byte{}, stream...), sched: append([]int{}, sched...), eofWith: pn%2 == 0}
		hdr := [][2]string{
			{"Content-Length", strconv.Itoa(len(stream))},
			{"X-Amz-Content-Sha256", "STREAMING-AWS4-HMAC-SHA256-PAYLOAD"},
			{"X-Amz-Decoded-Content-Length", strconv.Itoa(declared)}}
		if digest != "" {
			hdr = append(hdr, [2]string{"Content-MD5", digest})
		}
		if pn%2 == 1 {
			// (what curl --data-binary sends along; the body of a part is a body whatever its Content-Type says)
			hdr = append(hdr, [2]string{"Content-Type", []string{"application/x-www-form-urlencoded", "multipart/form-data; boundary=xyz"}[pn/2%2]})
		}
		return do(s.h, Req{Method: "PUT", Path: "/" + b + "/mpc?uploadId=" + queryEscape(id) + "&partNumber=" + strconv.Itoa(pn), Reader: fr, Header: hdr})
	}
	r1 := sendPart(1, p1, []int{1024}, []int{1}, len(p1))
	digest = b64md5(p2)
	r2 := sendPart(2, p2, []int{100, 1, 7}, nil, len(p2))
	digest = ""
	r3 := sendPart(3, p2, []int{64}, nil, len(p2)+1) // wrong declared decoded length
	digest = b64md5(p1)
	r4 := sendPart(4, p2, []int{64}, nil, len(p2)) // the digest of other bytes
	digest = ""
	verdict(r1.Status == 200 && r2.Status == 200, fmt.Sprintf("%s: chunked part uploads, without and with the Content-MD5 of their payload, are accepted (%d, %d)", kind, r1.Status, r2.Status))
	verdict(r3.Status >= 400, fmt.Sprintf("%s: a chunked part whose decoded length differs from the declared one is refused (%d)", kind, r3.Status))
	verdict(r4.Status >= 400, fmt.Sprintf("%s: a chunked part sent with the Content-MD5 of other bytes is refused (%d)", kind, r4.Status))
	// what follows the closing chunk of a part is checked like it is for an object: anything but a chunk
	// header there is a malformed stream, also when payload and declared length agree
	for ti, tail := range []string{"garbage", "\r\nmore", "zz;chunk-signature=0\r\n"} {
		stream := append(encodeChunks(splitChunks(p2, []int{64})), []byte(tail)...)
		r := do(s.h, Req{Method: "PUT", Path: "/" + b + "/mpc?uploadId=" + queryEscape(id) + "&partNumber=" + strconv.Itoa(5+ti), Body: stream, Header: [][2]string{
			{"X-Amz-Content-Sha256", "STREAMING-AWS4-HMAC-SHA256-PAYLOAD"}, {"X-Amz-Decoded-Content-Length", strconv.Itoa(len(p2))}}})
		verdict(r.Status >= 400, fmt.Sprintf("%s: a chunked part followed by %q after its closing chunk is refused (%d)", kind, tail, r.Status))
	}
	lp := s.ListParts(b, "mpc", id, -1, -1)
	verdict(fmt.Sprint(lp.Nums) == "[1 2]", fmt.Sprintf("%s: the upload holds exactly the two accepted parts: %v", kind, lp.Nums))
	if r1.Status == 200 && r2.Status == 200 {
		rc := s.Complete(b, "mpc", id, []CPart{{1, r1.Header.Get("ETag")}, {2, r2.Header.Get("ETag")}})
		g := do(s.h, Req{Method: "GET", Path: "/" + b + "/mpc"})
		want := append(append([]byte{}, p1...), p2...)
		verdict(rc.Status == 200 && g.Status == 200 && bytes.Equal(g.Body, want), fmt.Sprintf("%s: the completed object is the concatenation of the part payloads (%d bytes; got %d, complete answered %d)", kind, len(want), len(g.Body), rc.Status))
	}
	// the same for a whole object: Content-MD5 is the digest of the payload, with or without chunk framing
	for i, dg := range []string{b64md5(p2), b64md5(p1)} {
		stream := encodeChunks(splitChunks(p2, []int{50, 3}))
		r := do(s.h, Req{Method: "PUT", Path: "/" + b + "/chunked-with-digest", Body: stream, Header: [][2]string{
			{"X-Amz-Content-Sha256", "STREAMING-AWS4-HMAC-SHA256-PAYLOAD"}, {"X-Amz-Decoded-Content-Length", strconv.Itoa(len(p2))}, {"Content-MD5", dg}}})
		g := do(s.h, Req{Method: "GET", Path: "/" + b + "/chunked-with-digest"})
		if i == 0 {
			verdict(r.Status == 200 && g.Status == 200 && bytes.Equal(g.Body, p2), fmt.Sprintf("%s: an aws-chunked PUT with the Content-MD5 of its payload is accepted and stores the payload (PUT %d, GET %d, %d bytes)", kind, r.Status, g.Status, len(g.Body)))
		} else {
			verdict(r.Status >= 400 && g.Status == 200 && bytes.Equal(g.Body, p2), fmt.Sprintf("%s: an aws-chunked PUT with the Content-MD5 of other bytes is refused and the object stays (PUT %d, GET %d)", kind, r.Status, g.Status))
		}
	}
	nontrivial(kind + "|chunked-parts")
	s.end()
}
