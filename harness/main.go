package main

import (
	"flag"
	"fmt"
	"os"
	"path/filepath"
	"runtime/pprof"
	"strings"
)

type propRunner func(tier string, seed uint64)

var runners = map[string]propRunner{}

func main() {
	tier := flag.String("tier", "quick", "quick|thorough")
	seed := flag.Uint64("seed", 1, "seed")
	statsFile := flag.String("stats", "", "stats json output")
	tmp := flag.String("tmp", "", "scratch directory")
	corpus := flag.String("corpus", "", "corpus directory")
	flag.StringVar(&serverBinary, "server", "", "gofakes3 command built from /repo/cmd/gofakes3")
	kinds := flag.String("kinds", "", "comma-separated backend kinds (default all)")
	flag.Parse()
	if flag.NArg() < 1 {
		fmt.Fprintln(os.Stderr, "usage: harness [flags] <property>")
		os.Exit(2)
	}
	if pf := os.Getenv("VERIF_PROF"); pf != "" {
		f, _ := os.Create(pf)
		pprof.StartCPUProfile(f)
		defer pprof.StopCPUProfile()
	}
	tmpRoot = *tmp
	corpusDir = *corpus
	if tmpRoot == "" {
		tmpRoot = filepath.Join(os.TempDir(), "verifharness")
	}
	os.MkdirAll(tmpRoot, 0700)
	if *kinds != "" {
		allKinds = strings.Split(*kinds, ",")
	}
	prop := flag.Arg(0)
	run, ok := runners[prop]
	if !ok {
		fmt.Fprintln(os.Stderr, "unknown property", prop)
		os.Exit(2)
	}
	statsPath = *statsFile
	run(*tier, *seed)
	out.Flush()
	writeStats(*statsFile)
}
