package main

import (
	"flag"
	"fmt"
	"os"
	"path/filepath"
	"runtime/pprof"
	"strings"
	"sync/atomic"
	"time"
)

type propRunner func(tier string, seed uint64)

var runners = map[string]propRunner{}

func main() {
	tier := flag.String("tier", "quick", "quick|thorough")
	seed := flag.Uint64("seed", 1, "seed")
	statsFile := flag.String("stats", "", "stats json output")
	tmp := flag.String("tmp", "", "scratch directory")
	corpus := flag.String("corpus", "", "corpus directory")
	flag.StringVar(&serverBinary, "server", "", "gofakes3 command built from /repo/cmd/gofakes3")
	kinds := flag.String("kinds", "", "comma-separated backend kinds (default all)")
	flag.Parse()
	if flag.NArg() < 1 {
		fmt.Fprintln(os.Stderr, "usage: harness [flags] <property>")
		os.Exit(2)
	}
	if pf := os.Getenv("VERIF_PROF"); pf != "" {
		f, _ := os.Create(pf)
		pprof.StartCPUProfile(f)
		defer pprof.StopCPUProfile()
	}
	tmpRoot = *tmp
	corpusDir = *corpus
	if tmpRoot == "" {
		tmpRoot = filepath.Join(os.TempDir(), "verifharness")
	}
	os.MkdirAll(tmpRoot, 0700)
	if *kinds != "" {
		allKinds = strings.Split(*kinds, ",")
	}
	prop := flag.Arg(0)
	run, ok := runners[prop]
	if !ok {
		fmt.Fprintln(os.Stderr, "unknown property", prop)
		os.Exit(2)
	}
	statsPath = *statsFile
	// watchdog: a request that never returns (a handler spinning or waiting for a lock that nobody holds any
	// more) would keep this process until the caller's time limit; when nothing has been written for a long
	// while, say which request is in flight and end the run the way a timeout would (exit status 124)
	limit := 150 * time.Second
	if *tier == "thorough" {
		limit = 900 * time.Second
	}
	atomic.StoreInt64(&lastEmit, time.Now().UnixNano())
	go func() {
		for {
			time.Sleep(5 * time.Second)
			if idle := time.Since(time.Unix(0, atomic.LoadInt64(&lastEmit))); idle > limit {
				emitMu.Lock()
				out.Flush()
				cur, _ := inFlight.Load().(string)
				fmt.Fprintf(os.Stderr, "WATCHDOG: nothing written for %s; request in flight: %s\n", idle.Round(time.Second), cur)
				writeStats(statsPath)
				os.Exit(124)
			}
		}
	}()
	run(*tier, *seed)
	out.Flush()
	writeStats(*statsFile)
}
