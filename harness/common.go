package main

import (
	"bufio"
	"bytes"
	"encoding/hex"
	"encoding/json"
	"fmt"
	"io"
	"net/http"
	"net/http/httptest"
	"net/url"
	"os"
	"path/filepath"
	"runtime/debug"
	"sort"
	"strconv"
	"strings"
	"sync"
	"sync/atomic"
	"time"

	"github.com/johannesboyne/gofakes3"
	"github.com/johannesboyne/gofakes3/backend/s3afero"
	"github.com/johannesboyne/gofakes3/backend/s3bolt"
	"github.com/johannesboyne/gofakes3/backend/s3mem"
	"github.com/spf13/afero"
	bolt "go.etcd.io/bbolt"
)

// ---------------------------------------------------------------- PRNG (SplitMix64)

type Rng struct{ s uint64 }

func NewRng(seed uint64) *Rng { return &Rng{s: seed*0x9E3779B97F4A7C15 + 0x1234567} }
func (r *Rng) U64() uint64 {
	r.s += 0x9E3779B97F4A7C15
	z := r.s
	z = (z ^ (z >> 30)) * 0xBF58476D1CE4E5B9
	z = (z ^ (z >> 27)) * 0x94D049BB133111EB
	return z ^ (z >> 31)
}
func (r *Rng) Intn(n int) int {
	if n <= 0 {
		return 0
	}
	return int(r.U64() % uint64(n))
}
func (r *Rng) Bool() bool              { return r.U64()&1 == 1 }
func (r *Rng) Pick(xs []string) string { return xs[r.Intn(len(xs))] }
func (r *Rng) Bytes(n int) []byte {
	b := make([]byte, n)
	for i := range b {
		b[i] = byte(r.U64())
	}
	return b
}

// ---------------------------------------------------------------- output

var out = bufio.NewWriterSize(os.Stdout, 1<<20)

func hx(b []byte) string {
	if len(b) == 0 {
		return "-"
	}
	return hex.EncodeToString(b)
}
func hs(s string) string { return hx([]byte(s)) }

var emitMu sync.Mutex

func emit(fields ...string) {
	emitMu.Lock()
	defer emitMu.Unlock()
	out.WriteString(strings.Join(fields, "\t"))
	out.WriteByte('\n')
	atomic.StoreInt64(&lastEmit, time.Now().UnixNano())
	if len(fields) > 1 && fields[1] == "HANG" && fields[0] == "c07" {
		// requests that never return leave goroutines and locks behind, and every further wait costs its
		// whole deadline: two such reports settle the run (the trace so far is the replay)
		if hangs++; hangs >= 2 {
			out.Flush()
			writeStats(statsPath)
			os.Exit(0)
		}
	}
}

var hangs int
var statsPath string
var lastEmit int64        // UnixNano of the last trace line (watchdog in main.go)
var inFlight atomic.Value // description of the request the harness is waiting for

// stats collected for the evidence file
var stats = map[string]int{}
var samples []string
var corpusDir string
var nontrivialSet = map[string]bool{}

// nontrivial records one distinct case that reaches the behaviour under test
func nontrivial(key string) { nontrivialSet[key] = true }

func stat(k string) { stats[k]++ }
func sample(s string) {
	if len(samples) < 8 {
		samples = append(samples, s)
	}
}
func writeStats(path string) {
	if path == "" {
		return
	}
	keys := make([]string, 0, len(stats))
	for k := range stats {
		keys = append(keys, k)
	}
	sort.Strings(keys)
	m := map[string]interface{}{"distribution": stats, "samples": samples, "distinct_nontrivial": len(nontrivialSet)}
	b, _ := json.MarshalIndent(m, "", " ")
	os.WriteFile(path, b, 0644)
}

// ---------------------------------------------------------------- backends

var tmpRoot string
var tmpCounter int64

func newTmp(prefix string) string {
	n := atomic.AddInt64(&tmpCounter, 1)
	d := filepath.Join(tmpRoot, fmt.Sprintf("%s-%d-%d", prefix, os.Getpid(), n))
	os.RemoveAll(d)
	if err := os.MkdirAll(d, 0700); err != nil {
		panic(err)
	}
	return d
}

type Store struct {
	Kind    string
	Backend gofakes3.Backend
	cleanup func()
	dir     string // real directory (fsdir, sfsdir), or bolt file dir
	reopen  func() (gofakes3.Backend, error)
	Ext     *extServer // the real server binary instead of an in-process backend (kinds *bin)
}

type gofakes3Backend = gofakes3.Backend

func (s *Store) Close() {
	if s.cleanup != nil {
		s.cleanup()
	}
}

var fixedTime = time.Date(2020, 1, 2, 3, 4, 5, 0, time.UTC)

const singleBucketName = "bkt"

var allKinds = []string{"mem", "bolt", "fsmem", "fsdir", "sfsmem", "sfsdir"}

func newStore(kind string) *Store {
	if isExt(kind) {
		return newExtStore(kind)
	}
	switch kind {
	case "mem":
		return &Store{Kind: kind, Backend: s3mem.New(s3mem.WithVersionSeed(7))}
	case "bolt":
		d := newTmp("bolt")
		file := filepath.Join(d, "db.bolt")
		db, err := bolt.Open(file, 0600, nil)
		if err != nil {
			panic(err)
		}
		st := &Store{Kind: kind, Backend: s3bolt.New(db), dir: d}
		st.cleanup = func() { db.Close(); os.RemoveAll(d) }
		st.reopen = func() (gofakes3.Backend, error) {
			db.Close()
			ndb, err := bolt.Open(file, 0600, nil)
			if err != nil {
				return nil, err
			}
			db = ndb
			st.Backend = s3bolt.New(db)
			return st.Backend, nil
		}
		return st
	case "fsmem":
		fs := afero.NewMemMapFs()
		b, err := s3afero.MultiBucket(fs)
		if err != nil {
			panic(err)
		}
		return &Store{Kind: kind, Backend: b}
	case "fsdir":
		d := newTmp("fsdir")
		mk := func() (gofakes3.Backend, error) {
			fs := afero.NewBasePathFs(afero.NewOsFs(), d)
			return s3afero.MultiBucket(fs)
		}
		b, err := mk()
		if err != nil {
			panic(err)
		}
		st := &Store{Kind: kind, Backend: b, dir: d, cleanup: func() { os.RemoveAll(d) }}
		st.reopen = func() (gofakes3.Backend, error) {
			nb, err := mk()
			if err == nil {
				st.Backend = nb
			}
			return nb, err
		}
		return st
	case "sfsmem":
		fs := afero.NewMemMapFs()
		b, err := s3afero.SingleBucket(singleBucketName, fs, nil)
		if err != nil {
			panic(err)
		}
		return &Store{Kind: kind, Backend: b}
	case "sfsdir":
		d := newTmp("sfsdir")
		os.MkdirAll(filepath.Join(d, "data"), 0700)
		os.MkdirAll(filepath.Join(d, "meta"), 0700)
		mk := func() (gofakes3.Backend, error) {
			fs := afero.NewBasePathFs(afero.NewOsFs(), filepath.Join(d, "data"))
			mfs := afero.NewBasePathFs(afero.NewOsFs(), filepath.Join(d, "meta"))
			return s3afero.SingleBucket(singleBucketName, fs, mfs)
		}
		b, err := mk()
		if err != nil {
			panic(err)
		}
		st := &Store{Kind: kind, Backend: b, dir: d, cleanup: func() { os.RemoveAll(d) }}
		st.reopen = func() (gofakes3.Backend, error) {
			nb, err := mk()
			if err == nil {
				st.Backend = nb
			}
			return nb, err
		}
		return st
	}
	panic("unknown backend kind " + kind)
}

func isSingle(kind string) bool { return kind == "sfsmem" || kind == "sfsdir" || kind == "sfsbin" }

func newServer(b gofakes3.Backend, opts ...gofakes3.Option) http.Handler {
	o := []gofakes3.Option{
		gofakes3.WithTimeSkewLimit(0),
		gofakes3.WithTimeSource(gofakes3.FixedTimeSource(fixedTime)),
	}
	o = append(o, opts...)
	return gofakes3.New(b, o...).Server()
}

// newServerWith: a server whose time-skew check is on (the default limit of 15 minutes around the fixed time
// source) — newServer switches it off
func newServerWith(b gofakes3.Backend, opts ...gofakes3.Option) http.Handler {
	o := append([]gofakes3.Option{gofakes3.WithTimeSource(gofakes3.FixedTimeSource(fixedTime))}, opts...)
	return gofakes3.New(b, o...).Server()
}

// withHeader adds a request header to every request that does not carry it
type withHeader struct {
	inner http.Handler
	k, v  string
}

func (h withHeader) ServeHTTP(w http.ResponseWriter, r *http.Request) {
	if _, ok := r.Header[http.CanonicalHeaderKey(h.k)]; !ok {
		r.Header.Set(h.k, h.v)
	}
	h.inner.ServeHTTP(w, r)
}

// ---------------------------------------------------------------- requests

type Resp struct {
	Status int
	Header http.Header
	Body   []byte
	Panic  string
}

type Req struct {
	Method string
	Path   string // already escaped path + optional ?query
	Host   string
	Header [][2]string
	Body   []byte
	NoCL   bool      // do not set Content-Length header
	Reader io.Reader // overrides Body when set
}

var doCounter int64

func do(h http.Handler, rq Req) (resp Resp) {
	var body io.Reader
	if rq.Reader != nil {
		body = rq.Reader
	} else if rq.Body != nil {
		// net/http hands a handler the end of a Content-Length body together with its last bytes;
		// a bytes.Reader reports it in a separate read. Alternate between the two.
		if n := atomic.AddInt64(&doCounter, 1); n%2 == 1 && len(rq.Body) > 0 {
			body = &fragReader{data: append([]byte{}, rq.Body...), eofWith: true}
		} else {
			body = bytes.NewReader(rq.Body)
		}
	}
	target := rq.Path
	var r *http.Request
	func() {
		defer func() { recover() }() // NewRequest panics on what net/http would refuse to parse
		r = httptest.NewRequest(rq.Method, "http://localhost"+target, body)
	}()
	if r == nil {
		return Resp{Status: -1, Header: http.Header{}}
	}
	if rq.Host != "" {
		r.Host = rq.Host
	}
	if !rq.NoCL && rq.Body != nil && rq.Reader == nil {
		r.Header.Set("Content-Length", strconv.Itoa(len(rq.Body)))
	}
	for _, kv := range rq.Header {
		r.Header.Set(kv[0], kv[1])
	}
	// as net/http does for a real request: ContentLength mirrors the header
	if cl := r.Header.Get("Content-Length"); cl != "" {
		if n, err := strconv.ParseInt(cl, 10, 64); err == nil && n >= 0 {
			r.ContentLength = n
		}
	}
	w := httptest.NewRecorder()
	inFlight.Store(rq.Method + " " + truncStr(target, 300) + " " + truncStr(fmt.Sprint(rq.Header), 200))
	func() {
		defer func() {
			if p := recover(); p != nil {
				resp.Panic = fmt.Sprint(p)
			}
		}()
		h.ServeHTTP(w, r)
	}()
	inFlight.Store("")
	resp.Status = w.Code
	// the headers as they stood when the status line went out: what a handler sets afterwards never
	// reaches a client
	resp.Header = w.Result().Header
	resp.Body = w.Body.Bytes()
	return resp
}

// S3 error code out of an XML error body ("" when absent)
func errCode(body []byte) string {
	s := string(body)
	i := strings.Index(s, "<Code>")
	j := strings.Index(s, "</Code>")
	if i < 0 || j < i {
		return ""
	}
	return s[i+6 : j]
}

func pathEscape(key string) string {
	// escape every byte that is not unreserved, keep '/'
	var sb strings.Builder
	for i := 0; i < len(key); i++ {
		c := key[i]
		if c >= 'a' && c <= 'z' || c >= 'A' && c <= 'Z' || c >= '0' && c <= '9' || c == '-' || c == '_' || c == '.' || c == '~' || c == '/' {
			sb.WriteByte(c)
		} else {
			fmt.Fprintf(&sb, "%%%02X", c)
		}
	}
	return sb.String()
}

func queryEscape(v string) string {
	var sb strings.Builder
	for i := 0; i < len(v); i++ {
		c := v[i]
		if c >= 'a' && c <= 'z' || c >= 'A' && c <= 'Z' || c >= '0' && c <= '9' || c == '-' || c == '_' || c == '.' || c == '~' {
			sb.WriteByte(c)
		} else {
			fmt.Fprintf(&sb, "%%%02X", c)
		}
	}
	return sb.String()
}

// hostStyle turns the path-style requests the harness builds into virtual-host requests for a
// server configured with a host-bucket base: "/<bucket>/<rest>" becomes host "<bucket>.<base>",
// path "/<rest>". Buckets that cannot be a single host label (and "/") stay path-style on the
// bare base, which such a server must serve path-style.
type hostStyle struct {
	inner http.Handler
	base  string
}

func (h hostStyle) ServeHTTP(w http.ResponseWriter, r *http.Request) {
	esc := r.URL.EscapedPath()
	r.Host = h.base
	if len(esc) > 1 && esc[0] == '/' {
		seg, rest := esc[1:], ""
		if i := strings.IndexByte(seg, '/'); i >= 0 {
			seg, rest = seg[:i], seg[i:]
		}
		label := true
		for i := 0; i < len(seg); i++ {
			c := seg[i]
			if !(c >= 'a' && c <= 'z' || c >= '0' && c <= '9' || c == '-') {
				label = false
			}
		}
		if label && seg != "" {
			if rest == "" {
				rest = "/"
			}
			if u, err := url.Parse("http://" + seg + "." + h.base + rest); err == nil {
				u.RawQuery = r.URL.RawQuery
				r.URL = u
				r.Host = seg + "." + h.base
				r.RequestURI = ""
			}
		}
	}
	h.inner.ServeHTTP(w, r)
}

// readAllGuarded reads a body a backend handed out. Memory that is no longer mapped (a slice into a
// database file that has been remapped since) faults; the fault is turned into an error here instead
// of killing the process, so that it is reported as what it is: a body that cannot be read.
func readAllGuarded(r io.Reader) (b []byte, err error) {
	old := debug.SetPanicOnFault(true)
	defer debug.SetPanicOnFault(old)
	defer func() {
		if p := recover(); p != nil {
			err = fmt.Errorf("fault while reading the body: %v", p)
		}
	}()
	return io.ReadAll(r)
}
