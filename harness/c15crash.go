package main

import (
	"fmt"
	"os"
	"path/filepath"
	"strconv"
	"strings"
	"time"

	"github.com/johannesboyne/gofakes3"
	"github.com/johannesboyne/gofakes3/backend/s3afero"
	"github.com/spf13/afero"
)

type crashStore struct {
	kind string
	dir  string
	ctl  *crashCtl
}

func (cs *crashStore) open() (gofakes3.Backend, error) {
	cs.ctl = &crashCtl{}
	data := &crashFs{inner: afero.NewBasePathFs(afero.NewOsFs(), filepath.Join(cs.dir, "data")), ctl: cs.ctl, tag: "data"}
	meta := &crashFs{inner: afero.NewBasePathFs(afero.NewOsFs(), filepath.Join(cs.dir, "meta")), ctl: cs.ctl, tag: "meta"}
	if isSingle(cs.kind) {
		return s3afero.SingleBucket(singleBucketName, data, meta)
	}
	return s3afero.MultiBucket(data, s3afero.MultiWithMetaFs(meta))
}

type crashCase struct {
	name    string
	run     func(s *Sess)
	noProbe bool // the request is the first one of its process to read metadata (it measures the mod-time resolution)
}

// c15Crash enumerates the crash points of one write: the process dies immediately before each
// state-changing file-system call the request makes (and half way through each file write);
// a new backend on what is left must show the store with or without that write, intact.
func c15Crash(kind string) {
	b := singleBucketName
	mA := []KV{{"X-Amz-Meta-Color", "blue"}, {"Content-Type", "text/x-a"}}
	mB := []KV{{"X-Amz-Meta-Color", "red"}, {"X-Amz-Meta-Extra", "1"}}
	keys := []string{"a/b", "d", "e/f/g", "new"}
	cases := []crashCase{
		{"put-new-key", func(s *Sess) { s.Put(b, "e/f/g", []byte("a new object"), mB) }, false},
		{"put-overwrite-longer", func(s *Sess) { s.Put(b, "a/b", []byte("a longer replacement body"), mB) }, false},
		{"put-overwrite-shorter", func(s *Sess) { s.Put(b, "a/b", []byte("s"), mB) }, false},
		{"put-overwrite-same-length", func(s *Sess) { s.Put(b, "a/b", []byte("NEW-ab"), mB) }, false},
		{"put-overwrite-drop-metadata", func(s *Sess) { s.Put(b, "a/b", []byte("plain"), nil) }, false},
		{"delete", func(s *Sess) { s.Delete(b, "a/b") }, false},
		{"delete-top-level", func(s *Sess) { s.Delete(b, "d") }, false},
		{"copy-over-existing", func(s *Sess) { s.Copy(b, "a/b", b, "d") }, false},
		{"copy-to-new-key", func(s *Sess) { s.Copy(b, "a/b", b, "new") }, false},
		{"multi-delete-one", func(s *Sess) { s.MultiDelete(b, []KV{{K: "d"}}) }, false},
		// reads change nothing, whenever they are cut short, also the first one of a process
		{"first-read-get", func(s *Sess) { s.Get(b, "a/b", "") }, true},
		{"first-read-list", func(s *Sess) { s.List(ListReq{Bucket: b, MaxKeys: -1}) }, true},
	}
	if !isSingle(kind) {
		cases = append(cases, crashCase{"create-bucket", func(s *Sess) { s.MkBucket("bkb") }, false})
	}
	setup := func(s *Sess, probe bool) {
		if !isSingle(kind) {
			s.MkBucket(b)
		}
		s.Put(b, "a/b", []byte("old-ab"), mA)
		s.Put(b, "d", []byte("dd"), []KV{{"X-Amz-Meta-X", "1"}})
		if probe {
			s.Get(b, "a/b", "") // metadata has been loaded once (mod-time resolution probed)
		}
	}
	mk := func(mute bool) (*Sess, *crashStore) {
		cs := &crashStore{kind: kind, dir: newTmp("crash-" + kind)}
		os.MkdirAll(filepath.Join(cs.dir, "data"), 0700)
		os.MkdirAll(filepath.Join(cs.dir, "meta"), 0700)
		be, err := cs.open()
		if err != nil {
			panic(err)
		}
		s := &Sess{prop: "c15", kind: kind, st: &Store{Kind: kind, dir: cs.dir, cleanup: func() { os.RemoveAll(cs.dir) }}, h: newServer(be), mute: mute}
		if !mute {
			pre := "-"
			if isSingle(kind) {
				pre = hs(singleBucketName)
			}
			emit("c15", "H", kind, "auto=0,versioned=0,pages=0,failpage=0", pre)
		}
		return s, cs
	}
	for _, cc := range cases {
		// dry run: which state-changing calls does the request make?
		s0, cs0 := mk(true)
		setup(s0, !cc.noProbe)
		c0 := cs0.ctl.count
		cc.run(s0)
		calls := append([]string{}, cs0.ctl.log[c0:]...)
		s0.st.Close()
		type point struct {
			n       int
			partial bool
		}
		var points []point
		for i, name := range calls {
			points = append(points, point{i + 1, false})
			if strings.HasSuffix(name, ":Write") {
				points = append(points, point{i + 1, true})
			}
		}
		for _, pt := range points {
			s, cs := mk(false)
			setup(s, !cc.noProbe)
			if strings.Contains(cc.name, "same-length") {
				// the backends tell a rewritten file from its metadata record by size and modification
				// time: let the clock move on (coarse file-system timestamps) so that this is a test of
				// the crash points and not of timestamp granularity
				time.Sleep(15 * time.Millisecond)
			}
			cs.ctl.crashAt, cs.ctl.partial = cs.ctl.count+pt.n, pt.partial
			s.startCapture()
			cc.run(s)
			recs := s.takeCapture()
			label := fmt.Sprintf("%s@%d/%d:before-%s", cc.name, pt.n, len(calls), calls[pt.n-1])
			if pt.partial {
				label = fmt.Sprintf("%s@%d/%d:during-%s", cc.name, pt.n, len(calls), calls[pt.n-1])
			}
			// position in the model's call sequence (creating and pruning directories are not steps of the model)
			nModel := 0
			var modelCalls []string
			for i, c := range calls {
				if strings.Contains(c, "Mkdir") || strings.Contains(c, "Rmdir") {
					continue
				}
				modelCalls = append(modelCalls, c)
				if i < pt.n-1 {
					nModel++
				}
			}
			// ... and in the directory model's (Model/CrashDirs.v): the calls that change which files and directories exist
			nDir := 0
			var dirCalls []string
			for i, c := range calls {
				if c == "data:MkdirAll" || c == "data:Remove" || c == "data:Create" || c == "data:Rmdir" {
					dirCalls = append(dirCalls, c)
					if i < pt.n-1 {
						nDir++
					}
				}
			}
			emit("c15", "CRASH", hs(label), strconv.Itoa(nModel), boolField(pt.partial), joinHex(modelCalls), strconv.Itoa(nDir), joinHex(dirCalls))
			died := cs.ctl.dead
			for _, c := range recs {
				if died {
					emit(append([]string{"c15", "MAYBE", c.name}, c.args...)...)
				} else {
					s.emitOpX(c.name, c.args, c.o, c.noteV) // the call sequence differed from the dry run: no crash happened
				}
			}
			stat("crash-point")
			stat("crash-point-" + cc.name)
			// the next process
			be, err := cs.open()
			if err != nil {
				emit("c15", "REOPENFAIL", hs(err.Error()))
				s.end()
				continue
			}
			s.h = newServer(be)
			emit("c15", "REOPEN")
			s.ListBuckets()
			s.List(ListReq{Bucket: b, MaxKeys: -1})
			for _, k := range keys {
				s.Get(b, k, "")
				s.Head(b, k, "")
			}
			// the hierarchy of the store: a common prefix stands for keys; one without any key is the leftover
			// of a write that never happened (known finding D34 where the crash model predicts it)
			{
				dl := do(s.h, Req{Method: "GET", Path: "/" + b + "?delimiter=%2F"})
				fl := do(s.h, Req{Method: "GET", Path: "/" + b})
				keys := xmlContentsKeys(string(fl.Body))
				var phantom []string
				for _, blk := range xmlBlocks(string(dl.Body), "CommonPrefixes") {
					for _, p := range xmlAll(blk, "Prefix") {
						has := false
						for _, k := range keys {
							has = has || strings.HasPrefix(k, p)
						}
						if !has {
							phantom = append(phantom, p)
						}
					}
				}
				if dl.Status != 200 || fl.Status != 200 {
					phantom = append(phantom, fmt.Sprintf("<listing answers %d / %d>", dl.Status, fl.Status))
				}
				emit("c15", "DIRS", joinHex(phantom), hs(fmt.Sprintf("%s after %s: common prefixes without a key %q (keys %q)", kind, label, phantom, keys)))
			}
			if cc.name == "create-bucket" {
				// a bucket whose creation was cut short exists or does not; either way it can be (re)created and used
				s.MkBucket("bkb")
				s.Put("bkb", "first/object", []byte("into the new bucket"), mB)
				s.Get("bkb", "first/object", "")
				s.List(ListReq{Bucket: "bkb", MaxKeys: -1})
				s.Delete("bkb", "first/object")
				s.RmBucket("bkb")
			}
			// and it keeps working: the key can be written and read again
			s.Put(b, "a/b", []byte("after"), mA)
			s.Get(b, "a/b", "")
			s.end()
			nontrivial(kind + "|" + label)
		}
	}
}
