package main

import (
	"fmt"
	"net/http"
	"sort"
	"strconv"
	"strings"

	"github.com/johannesboyne/gofakes3"
)

func init() { runners["c17"] = runC17 }

var c17Alphabet = []byte{'a', 'z', '0', '9', '-', '.', 'A', '_'}

func c17Enumerate(maxLen int, f func(string)) {
	var rec func(prefix []byte)
	rec = func(prefix []byte) {
		if len(prefix) > 0 {
			f(string(prefix))
		}
		if len(prefix) == maxLen {
			return
		}
		for _, c := range c17Alphabet {
			rec(append(prefix, c))
		}
	}
	rec(nil)
}

func c17Special(rng *Rng, n int) []string {
	var out []string
	for l := 1; l <= 70; l++ {
		out = append(out, strings.Repeat("a", l))
		s := make([]byte, l)
		for i := range s {
			s[i] = "abz019-"[rng.Intn(7)]
		}
		out = append(out, string(s))
		// dotted labels of total length l
		var sb strings.Builder
		for sb.Len() < l {
			k := 1 + rng.Intn(5)
			for j := 0; j < k && sb.Len() < l; j++ {
				sb.WriteByte("abz019-"[rng.Intn(7)])
			}
			if sb.Len() < l {
				sb.WriteByte('.')
			}
		}
		out = append(out, sb.String())
	}
	// names whose labels are all valid, of total length around both limits (so that only the
	// length of the whole name decides)
	for l := 1; l <= 70; l++ {
		if l <= 8 || l >= 58 {
			var sb strings.Builder
			for sb.Len() < l {
				if sb.Len() > 0 && l-sb.Len() >= 2 {
					sb.WriteByte('.')
				}
				for j := 0; j < 3 && sb.Len() < l; j++ {
					sb.WriteByte("abc"[j])
				}
			}
			out = append(out, sb.String())
			if l > 62 {
				out = append(out, strings.Repeat("a", 60)+"."+strings.Repeat("b", l-61), strings.Repeat("a", l-4)+".bbb", "x."+strings.Repeat("y", l-2))
			}
		}
	}
	// names carrying percent escapes (sent double-encoded, so the server sees them literally)
	out = append(out, "%61bc", "ab%63", "abc%2Edef", "%2e%2e%2e", "a%00bc", "abc%", "ab%zz", "%41bc", "abc%2Fdef", "abc%25def")
	out = append(out, "192.168.1.1", "100.200.100.200", "255.255.255.255", "256.100.100.100", "100.100.100",
		"100.100.100.100.100", "010.100.100.100", "100.100.100.256", "000.000.000.000", "100.100.100.1000",
		"111.222.033.044", "::1", "fe80::1", "1:2:3:4:5:6:7:8", "aaa.bbb.ccc.ddd", "abc..def", ".abc", "abc.", "abc.-de", "abc.de-",
		"ab-.cde", "abc.d-e", "a-b.c-d", "xn--abc.def", "abc.def.ghi.jkl.mno", "100.200.100.abc", "0x1.0x2.0x3.0x4",
		"1e1.100.100.100", "abc\x00def", "abc def", "abc%2e", "ABC", "abC", "a_b", "ab", "a", "abc", "a-c", "-ab", "ab-", "a.b",
		"aaa.bbb", "aaa..bbb", "aaa.bb", "aaa.-bb", "aaa.b-b", "9aa.9bb", "a--", "a--b", "0.0.0.0", "100.100.100.100")
	// names a server might be tempted to give a meaning of its own (probe, console and static paths): to this
	// server they are bucket names like any other
	out = append(out, "healthz", "health", "livez", "readyz", "metrics", "status", "ping", "ready", "live", "api", "admin", "debug", "pprof", "minio", "console",
		"static", "version", "info", "login", "logout", "index.html", "favicon.ico", "robots.txt", "crossdomain.xml", "swagger", "graphql", "well-known", "null", "nil", "undefined", "true", "false", "new", "uploads", "versions", "location", "versioning", "delete")
	// names that are several lines, some or all of them valid names on their own; other white space
	// and control characters around and inside valid names
	out = append(out, "aaa\n", "\naaa", "aaa\nA_", "A_\naaa", "aaa.\nbbb", "100.100.100\n1", "aaa\nbbb", "aaa\r\nbbb", "aaa\r", "\raaa", "aaa\tbbb", "\taaa", "aaa\x0b", "aaa\x0cbbb",
		"aaa\n.bbb", "aaa.bbb\n", "aaa\n\nbbb", "a\nb", "\n\n\n", "aaa\x85bbb", "aaa\u2028bbb", " aaa", "aaa ")
	for i := 0; i < n; i++ {
		l := 1 + rng.Intn(12)
		s := make([]byte, l)
		for j := range s {
			if rng.Intn(8) == 0 {
				s[j] = byte(rng.U64())
			} else {
				s[j] = "abcxyz0189--..A_:"[rng.Intn(17)]
			}
		}
		out = append(out, string(s))
	}
	return out
}

func runC17(tier string, seed uint64) {
	rng := NewRng(seed)
	direct := 5
	viaHTTP := map[string]int{"mem": 4, "bolt": 3, "fsmem": 3, "fsdir": 2}
	nrand := 300
	if tier == "thorough" {
		direct = 6
		viaHTTP = map[string]int{"mem": 5, "bolt": 3, "fsmem": 4, "fsdir": 3}
		nrand = 3000
	}
	special := c17Special(rng, nrand)
	// direct calls
	emitDirect := func(name string) {
		ok := gofakes3.ValidateBucketName(name) == nil
		v := "0"
		if ok {
			v = "1"
			nontrivial("direct-accept|" + name)
			sample("ValidateBucketName(" + strconv.Quote(name) + ") accepted")
		}
		emit("c17", "direct", hs(name), v)
		stat("direct")
	}
	c17Enumerate(direct, emitDirect)
	for _, s := range special {
		emitDirect(s)
	}
	// through the HTTP API
	for _, kind := range allKinds {
		maxLen, ok := viaHTTP[kind]
		if !ok {
			continue
		}
		st := newStore(kind)
		h := newServer(st.Backend)
		emit("c17", "reset", kind)
		n := 0
		list := func() {
			r := do(h, Req{Method: "GET", Path: "/"})
			names := xmlAll(string(r.Body), "Name")
			sort.Strings(names)
			var hexed []string
			for _, nm := range names {
				hexed = append(hexed, hs(nm))
			}
			emit("c17", "list", kind, strconv.Itoa(r.Status), strings.Join(hexed, ","))
		}
		put := func(name string) {
			if name == "" || strings.ContainsAny(name, "/?#") || strings.Trim(name, "/") != name {
				return
			}
			r := do(h, Req{Method: "PUT", Path: "/" + pathEscape(name)})
			emit("c17", "put", kind, hs(name), strconv.Itoa(r.Status), hs(errCode(r.Body)), boolField(r.Panic != ""))
			stat(fmt.Sprintf("put-%s-%d", kind, r.Status))
			if r.Status == 200 {
				nontrivial("created|" + kind + "|" + name)
			}
			n++
			if n%500 == 0 {
				list()
			}
		}
		c17Enumerate(maxLen, put)
		for _, s := range special {
			put(s)
		}
		// create-bucket requests carrying the optional headers of the S3 API (object lock, ACL, grants, ownership) and a
		// location document: the name rule decides, and what is answered agrees with what is listed afterwards
		for hi, hv := range [][2]string{{"x-amz-bucket-object-lock-enabled", "true"}, {"x-amz-bucket-object-lock-enabled", "false"}, {"x-amz-acl", "public-read"},
			{"x-amz-grant-full-control", "id=abc"}, {"x-amz-object-ownership", "BucketOwnerEnforced"}, {"x-amz-bucket-object-lock-enabled", "TRUE"}, {"Content-Type", "application/xml"}} {
			for _, nm := range []string{fmt.Sprintf("hdr-bucket-%d", hi), fmt.Sprintf("Hdr_Bad_%d", hi)} {
				body := []byte{}
				if hi%2 == 0 {
					body = []byte(`<CreateBucketConfiguration xmlns="http://s3.amazonaws.com/doc/2006-03-01/"><LocationConstraint>eu-west-1</LocationConstraint></CreateBucketConfiguration>`)
				}
				r := do(h, Req{Method: "PUT", Path: "/" + nm, Body: body, Header: [][2]string{hv}})
				emit("c17", "put", kind, hs(nm), strconv.Itoa(r.Status), hs(errCode(r.Body)), boolField(r.Panic != ""))
			}
		}
		list()
		// duplicates
		for _, s := range []string{"abc", "aaa.bbb", "a-c", "zzz"} {
			put(s)
			put(s)
		}
		// a bucket that was deleted is not listed, whatever arrives for it afterwards: a multipart upload
		// started in it and completed after the bucket is gone, an upload and a copy into it
		{
			gone := "zzz-gone"
			do(h, Req{Method: "PUT", Path: "/" + gone})
			ir := do(h, Req{Method: "POST", Path: "/" + gone + "/obj?uploads", Body: []byte{}})
			if ids := xmlAll(string(ir.Body), "UploadId"); len(ids) == 1 {
				pr := do(h, Req{Method: "PUT", Path: "/" + gone + "/obj?uploadId=" + ids[0] + "&partNumber=1", Body: []byte("part")})
				do(h, Req{Method: "DELETE", Path: "/" + gone})
				do(h, Req{Method: "POST", Path: "/" + gone + "/obj?uploadId=" + ids[0], Body: []byte("<CompleteMultipartUpload><Part><PartNumber>1</PartNumber><ETag>" + pr.Header.Get("ETag") + "</ETag></Part></CompleteMultipartUpload>")})
			}
			do(h, Req{Method: "PUT", Path: "/" + gone + "/late", Body: []byte("x")})
			do(h, Req{Method: "PUT", Path: "/" + gone + "/copied", Body: []byte{}, Header: [][2]string{{"X-Amz-Copy-Source", "/abc/nothing"}}})
			stat("deleted-bucket-addressed-" + kind)
		}
		// buckets come to exist through create-bucket only: uploads, copies and multipart uploads whose keys spell
		// paths out of their bucket (into the directory the fs backend keeps its buckets in) make none
		for _, hk := range []string{"../zzz-sideways/x", "../zzz-sideways2", "../../zzz-up/x", "./../zzz-dot/x", "a/../../zzz-mid/x", "..%2Fzzz-esc/x", "../Bad_Name/x", "..\\zzz-back/x"} {
			do(h, Req{Method: "PUT", Path: "/abc/" + hk, Body: []byte("x")})
			do(h, Req{Method: "PUT", Path: "/abc/" + hk + ".copy", Body: []byte{}, Header: [][2]string{{"X-Amz-Copy-Source", "/abc/" + hk}}})
			if ir := do(h, Req{Method: "POST", Path: "/abc/" + hk + ".mp?uploads", Body: []byte{}}); len(xmlAll(string(ir.Body), "UploadId")) == 1 {
				id := xmlAll(string(ir.Body), "UploadId")[0]
				pr := do(h, Req{Method: "PUT", Path: "/abc/" + hk + ".mp?uploadId=" + id + "&partNumber=1", Body: []byte("part")})
				do(h, Req{Method: "POST", Path: "/abc/" + hk + ".mp?uploadId=" + id, Body: []byte("<CompleteMultipartUpload><Part><PartNumber>1</PartNumber><ETag>" + pr.Header.Get("ETag") + "</ETag></Part></CompleteMultipartUpload>")})
			}
			stat("hostile-key-upload-" + kind)
		}
		list()
		st.Close()
	}
	// ... and when the bucket comes to exist on first use (auto-bucket option): any request that names a
	// bucket makes it, under the same rule — a name create-bucket refuses must not come to exist this way
	for _, base := range []string{"mem", "bolt", "fsmem"} {
		kind := base + "-auto"
		st := newStore(base)
		h := newServer(st.Backend, gofakes3.WithAutoBucket(true))
		emit("c17", "reset", kind)
		touch := func(name string) {
			if name == "" || strings.ContainsAny(name, "/?#") || strings.Trim(name, "/") != name {
				return
			}
			r := do(h, Req{Method: "GET", Path: "/" + pathEscape(name)})
			emit("c17", "touch", kind, hs(name), strconv.Itoa(r.Status), hs(errCode(r.Body)), boolField(r.Panic != ""))
			stat(fmt.Sprintf("touch-%s-%d", kind, r.Status))
		}
		c17Enumerate(3, touch)
		for _, s := range special {
			touch(s)
		}
		// other requests that name a bucket: an object read, a bucket sub-resource, an upload
		for _, name := range []string{"Bad_Name", "ab", "a_b", "ABC", "abc..def", "good-name", "192.168.1.1"} {
			if gofakes3.ValidateBucketName(name) == nil {
				touch(name)
			}
			for _, rq := range []Req{{Method: "GET", Path: "/" + name + "/k"}, {Method: "GET", Path: "/" + name + "?versioning"},
				{Method: "PUT", Path: "/" + name + "/k", Body: []byte("x")}, {Method: "HEAD", Path: "/" + name}} {
				r := do(h, rq)
				if gofakes3.ValidateBucketName(name) != nil && r.Status < 400 {
					emit("c17", "touch", kind, hs(name), strconv.Itoa(r.Status), hs(errCode(r.Body)), boolField(r.Panic != ""))
				}
			}
		}
		// the request without a bucket in its path must not make a bucket with the empty name
		do(h, Req{Method: "GET", Path: "/?versioning"})
		do(h, Req{Method: "GET", Path: "/?uploads"})
		r := do(h, Req{Method: "GET", Path: "/"})
		names := xmlAll(string(r.Body), "Name")
		sort.Strings(names)
		var hexed []string
		for _, nm := range names {
			hexed = append(hexed, hs(nm))
		}
		emit("c17", "list", kind, strconv.Itoa(r.Status), strings.Join(hexed, ","))
		st.Close()
	}
	// ... and when the bucket name arrives as the first label of the Host header (host-bucket-base
	// and host-bucket servers, memory backend): the same decision, on the name as it was sent
	for _, mode := range []string{"hostbase", "host"} {
		kind := "mem-" + mode
		st := newStore("mem")
		var h http.Handler
		if mode == "hostbase" {
			h = newServer(st.Backend, gofakes3.WithHostBucketBase("s3.example.com"))
		} else {
			h = newServer(st.Backend, gofakes3.WithHostBucket(true))
		}
		emit("c17", "reset", kind)
		hostable := func(name string) bool {
			if name == "" {
				return false
			}
			for i := 0; i < len(name); i++ {
				c := name[i]
				if !(c >= 'a' && c <= 'z' || c >= 'A' && c <= 'Z' || c >= '0' && c <= '9' || c == '-' || c == '_') {
					return false
				}
			}
			return true
		}
		put := func(name string) {
			if !hostable(name) {
				return
			}
			r := do(h, Req{Method: "PUT", Path: "/", Host: name + ".s3.example.com"})
			emit("c17", "put", kind, hs(name), strconv.Itoa(r.Status), hs(errCode(r.Body)), boolField(r.Panic != ""))
			stat(fmt.Sprintf("put-%s-%d", kind, r.Status))
		}
		c17Enumerate(4, put)
		for _, s := range special {
			put(s)
		}
		for _, s := range []string{"AzA", "aaA", "A-9", "Abc", "abC", "a_b", "ABC", "abc", "abc"} {
			put(s)
		}
		if mode == "hostbase" {
			r := do(h, Req{Method: "GET", Path: "/", Host: "s3.example.com"})
			names := xmlAll(string(r.Body), "Name")
			sort.Strings(names)
			var hexed []string
			for _, nm := range names {
				hexed = append(hexed, hs(nm))
			}
			emit("c17", "list", kind, strconv.Itoa(r.Status), strings.Join(hexed, ","))
		}
		st.Close()
	}
}

func boolField(b bool) string {
	if b {
		return "1"
	}
	return "0"
}

// all text contents of <tag>...</tag>
func xmlAll(s, tag string) []string {
	var out []string
	open, close := "<"+tag+">", "</"+tag+">"
	for {
		i := strings.Index(s, open)
		if i < 0 {
			return out
		}
		s = s[i+len(open):]
		j := strings.Index(s, close)
		if j < 0 {
			return out
		}
		out = append(out, xmlUnescape(s[:j]))
		s = s[j+len(close):]
	}
}

func xmlUnescape(s string) string {
	r := strings.NewReplacer("&lt;", "<", "&gt;", ">", "&amp;", "&", "&#34;", "\"", "&#39;", "'", "&#xA;", "\n", "&#xD;", "\r", "&#x9;", "\t", "&quot;", "\"", "&apos;", "'")
	return r.Replace(s)
}
