package main

import (
	"encoding/xml"
	"fmt"
	"strconv"
	"strings"
)

func init() { runners["c13"] = runC13 }

type versionsXML struct {
	IsTruncated    bool   `xml:"IsTruncated"`
	NextKeyMarker  string `xml:"NextKeyMarker"`
	NextVidMarker  string `xml:"NextVersionIdMarker"`
	CommonPrefixes []struct {
		Prefix string `xml:"Prefix"`
	} `xml:"CommonPrefixes"`
}

type verEntry struct {
	Key, ID, ETag string
	Size          int64
	Marker        bool
	Latest        bool
}

// entries in document order (Version and DeleteMarker elements interleaved)
func parseVersionEntries(body []byte) []verEntry {
	var out []verEntry
	dec := xml.NewDecoder(strings.NewReader(string(body)))
	for {
		tok, err := dec.Token()
		if err != nil {
			return out
		}
		se, ok := tok.(xml.StartElement)
		if !ok || (se.Name.Local != "Version" && se.Name.Local != "DeleteMarker") {
			continue
		}
		var v struct {
			Key       string `xml:"Key"`
			VersionID string `xml:"VersionId"`
			IsLatest  bool   `xml:"IsLatest"`
			Size      int64  `xml:"Size"`
			ETag      string `xml:"ETag"`
		}
		if dec.DecodeElement(&v, &se) == nil {
			out = append(out, verEntry{Key: v.Key, ID: v.VersionID, ETag: v.ETag, Size: v.Size, Marker: se.Name.Local == "DeleteMarker", Latest: v.IsLatest})
		}
	}
}

type VersionsResp struct {
	Resp      Resp
	Entries   []verEntry
	Truncated bool
	NextKey   string
	NextVid   string
}

func (s *Sess) ListVersions(b, prefix, delim, km, vm string, maxKeys int) VersionsResp {
	ps := []string{"versions"}
	if prefix != "" {
		ps = append(ps, "prefix="+queryEscape(prefix))
	}
	if delim != "" {
		ps = append(ps, "delimiter="+queryEscape(delim))
	}
	if km != "" {
		ps = append(ps, "key-marker="+queryEscape(km))
		if vm != "" {
			ps = append(ps, "version-id-marker="+queryEscape(vm))
		} else if s.wireNullMarker {
			// the id the listing shows for a version of a never-versioned (or suspended) bucket; naming it
			// resumes after the key, exactly like naming no version
			ps = append(ps, "version-id-marker=null")
		}
	} else {
		vm = ""
	}
	mk := 1000
	if maxKeys >= 0 {
		ps = append(ps, "max-keys="+strconv.Itoa(maxKeys))
		mk = maxKeys
		if mk > 1000 {
			mk = 1000
		}
	}
	r := do(s.h, Req{Method: "GET", Path: "/" + pathEscape(b) + "?" + strings.Join(ps, "&")})
	o := obsT{}
	out := VersionsResp{Resp: r}
	var vx versionsXML
	if r.Status == 200 && xml.Unmarshal(r.Body, &vx) == nil {
		out.Entries = parseVersionEntries(r.Body)
		for _, e := range out.Entries {
			o.contents = append(o.contents, hs(e.Key)+":"+strconv.FormatInt(e.Size, 10)+":"+hs(e.ETag))
			o.versions = append(o.versions, hs(e.ID)+":"+boolField(e.Marker)+":"+boolField(e.Latest))
			if e.ID != "null" {
				s.noteVid(e.ID)
			}
		}
		for _, p := range vx.CommonPrefixes {
			o.names = append(o.names, p.Prefix)
		}
		o.truncated = vx.IsTruncated
		o.next = vx.NextKeyMarker
		out.Truncated, out.NextKey, out.NextVid = vx.IsTruncated, vx.NextKeyMarker, vx.NextVidMarker
	}
	dl := "-"
	if delim != "" {
		dl = hs(delim)
	}
	r.Header.Set("x-amz-version-id", vx.NextVidMarker)
	o.r = r
	s.emitOpRaw("lsv", []string{hs(b), hs(prefix), dl, hs(km), hs(vm), strconv.Itoa(mk)}, o)
	return out
}

func runC13(tier string, seed uint64) {
	rng := NewRng(seed)
	nseq, length := 60, 22
	if tier == "thorough" {
		nseq, length = 800, 30
	}
	b := singleBucketName
	length0 := length
	for i := 0; i < nseq; i++ {
		length = length0
		s := newSess("c13", "mem", SessOpts{})
		s.MkBucket(b)
		keys := []string{"k", "j", "p/q", "p/r", "z"}[:2+rng.Intn(4)]
		if i%4 == 2 {
			keys = append(keys, "a+b", "a b", "r%20s", "r s") // markers are keys, byte for byte
		}
		if i%4 == 3 {
			// a key that begins with the delimiter (stored by PUT /bucket//p/a0): the grouped listings show it the way
			// Prefix.Match sees it, and every other key is still there
			keys = append(keys, "/p/a0", "p")
			if i%8 == 7 {
				// ... with a group of its own between it and the plain keys of its group: one response names
				// a group once, wherever its keys sort
				keys = append(keys, "m/x", "p/q")
			}
		}
		if i%4 == 1 {
			keys = append(keys, "m"+strings.Repeat("L", 1023)) // a key of the maximum length: it is a legal key marker too
		}
		mode := rng.Intn(6) // 0: never versioned, 1: enabled from the start, 2,3: mixed, 4: enabled, suspended before listing, 5: mixed, suspended before listing
		if mode == 1 || mode == 4 {
			s.SetVersioning(b, true)
		}
		if i%5 == 4 {
			// a fixed opening: versions written while enabled, then hidden by deletes made while suspended
			// (delete markers that are "null" versions), twice over for one key, and a null version
			// written over an enabled-era one; the history goes on from there
			mode = 5
			s.SetVersioning(b, true)
			s.Put(b, keys[0], []byte("enabled-era 1"), nil)
			s.Put(b, keys[1], []byte("enabled-era other"), nil)
			s.SetVersioning(b, false)
			s.Delete(b, keys[0])
			s.Put(b, keys[1], []byte("written while suspended"), nil)
			s.SetVersioning(b, true)
			s.Put(b, keys[0], []byte("enabled-era 2"), nil)
			s.SetVersioning(b, false)
			s.Delete(b, keys[0])
			s.Delete(b, keys[1])
			length = 6
		}
		for j := 0; j < length; j++ {
			if mode == 2 || mode == 3 || mode == 5 {
				c05RandomOp(s, b, keys, rng)
				continue
			}
			// modes 0/1: no versioning changes
			k := keys[rng.Intn(len(keys))]
			switch w := rng.Intn(10); {
			case w < 5:
				s.Put(b, k, []byte(fmt.Sprintf("v%d", s.nops)), nil)
			case w < 7:
				s.Delete(b, k)
			case w < 9 && len(s.vids) > 0:
				s.DeleteVersion(b, k, s.vids[rng.Intn(len(s.vids))])
			default:
				s.Get(b, k, "")
			}
		}
		if mode >= 4 {
			s.SetVersioning(b, false) // listing a bucket whose versioning is suspended: every version is still there
		}
		// the full listing, cross-checked against unqualified reads (IsLatest = what GET resolves to)
		full := s.ListVersions(b, "", "", "", "", -1)
		for _, k := range keys {
			s.Get(b, k, "")
		}
		// ... and every entry is addressable by the id it is listed with: that id reads this version (or
		// answers for this delete marker), not another one
		if s.everEnabled {
			for _, e := range full.Entries {
				s.Get(b, e.Key, e.ID)
				if !e.Marker {
					s.Head(b, e.Key, e.ID)
				}
			}
		}
		n := len(full.Entries)
		for _, pd := range [][2]string{{"", ""}, {"p", ""}, {"", "/"}, {"p/", "/"}, {"p", "/"}} {
			s.ListVersions(b, pd[0], pd[1], "", "", -1)
			if pd[1] != "" && i%4 == 3 {
				continue // (grouped pages over keys that begin with the delimiter repeat a common prefix: the D32 quirk of Prefix.Match, outside the listing properties' key domain)
			}
			for mk := 1; mk <= n+1; mk++ {
				if mk > 3 && mk < n-1 && rng.Intn(3) > 0 {
					continue
				}
				emit(s.prop, "PB", strconv.Itoa(mk))
				km, vm := "", ""
				term := false
				for pg := 0; pg < n+3; pg++ {
					r := s.ListVersions(b, pd[0], pd[1], km, vm, mk)
					if r.Resp.Status != 200 {
						break
					}
					if !r.Truncated {
						term = true
						break
					}
					if r.NextKey == "" {
						break // truncated, but the server gives no way to continue
					}
					km, vm = r.NextKey, r.NextVid
				}
				emit(s.prop, "PF")
				s.ListVersions(b, pd[0], pd[1], "", "", -1)
				emit(s.prop, "PE", boolField(term))
				nontrivial(fmt.Sprint("walk", i, pd, mk))
			}
		}
		// marker pairs naming existing versions
		for _, e := range full.Entries {
			if rng.Intn(2) == 0 {
				vm := e.ID
				if vm == "null" {
					vm = ""
					s.wireNullMarker = rng.Bool()
				}
				s.ListVersions(b, "", "", e.Key, vm, 1+rng.Intn(3))
				// the same pair under a prefix / delimiter: the marker says where the listing resumes, whether
				// or not its own key lies under the prefix (or inside a common prefix)
				pd := [][2]string{{"p", ""}, {"", "/"}, {"p/", "/"}, {"k", ""}, {"zz", ""}}[rng.Intn(5)]
				s.ListVersions(b, pd[0], pd[1], e.Key, vm, 1+rng.Intn(3))
				s.wireNullMarker = false
			}
		}
		// markers behind the last key: made up by the client, or handed out by the server before the keys
		// behind them (here: the last key itself, every version of it) were removed. The listing resumes
		// after them: nothing is left, and the answer says so (not truncated)
		if n > 0 {
			last := full.Entries[n-1]
			s.ListVersions(b, "", "", last.Key+"0", "", 1+rng.Intn(3))
			s.ListVersions(b, "p", "/", "zzzz", "", -1)
			for _, e := range full.Entries {
				if e.Key != last.Key {
					continue
				}
				if s.everEnabled {
					s.DeleteVersion(b, e.Key, e.ID)
				} else {
					s.Delete(b, e.Key)
				}
			}
			vm := last.ID
			if vm == "null" {
				vm = ""
			}
			s.ListVersions(b, "", "", last.Key, vm, 1+rng.Intn(3))
			s.ListVersions(b, "", "", last.Key, "", -1)
			s.ListVersions(b, "", "", "", "", -1)
		}
		s.end()
	}
	sample("histories as in C05 (never-versioned, enabled from the start, mixed enable/suspend, and both of the latter suspended just before listing) over 2..5 keys incl. p/q p/r; then ListObjectVersions unpaginated (cross-checked with unqualified GETs), walks for max-keys 1..n+1 over 4 prefix/delimiter combinations following (NextKeyMarker, NextVersionIdMarker), and single pages from marker pairs naming existing versions")
}
