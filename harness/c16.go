package main

import (
	"crypto/md5"
	"encoding/hex"
	"fmt"
	"net/http"
	"net/url"
	"regexp"
	"sort"
	"strconv"
	"strings"
	"sync"

	"github.com/johannesboyne/gofakes3"
	"github.com/johannesboyne/gofakes3/backend/s3mem"
)

func init() { runners["c16"] = runC16 }

type twin struct {
	name  string
	mode  string   // none | host | bases
	bases []string // configured bases
	rec   *recBackend
	h     http.Handler
}

func newTwin(name, mode string, bases []string) *twin {
	inner := s3mem.New(s3mem.WithVersionSeed(7))
	rec := &recBackend{inner: inner}
	var be gofakes3.Backend = &recVersioned{recBackend: rec, v: inner}
	var opts []gofakes3.Option
	switch mode {
	case "host":
		opts = append(opts, gofakes3.WithHostBucket(true))
	case "bases":
		opts = append(opts, gofakes3.WithHostBucketBase(bases...))
	case "both":
		// what cmd/gofakes3 passes when -hostbucket and -hostbucketbase are given: the bases win
		opts = append(opts, gofakes3.WithHostBucket(true), gofakes3.WithHostBucketBase(bases...))
		mode = "bases"
	case "both-reversed":
		opts = append(opts, gofakes3.WithHostBucketBase(bases...), gofakes3.WithHostBucket(true))
		mode = "bases"
	case "bases-hostbucket-off-first":
		// the options are independent settings: naming host-bucket "off" explicitly, before or after the
		// bases, is the same as not naming it
		opts = append(opts, gofakes3.WithHostBucket(false), gofakes3.WithHostBucketBase(bases...))
		mode = "bases"
	case "bases-hostbucket-off-last":
		opts = append(opts, gofakes3.WithHostBucketBase(bases...), gofakes3.WithHostBucket(false))
		mode = "bases"
	case "none-explicit":
		opts = append(opts, gofakes3.WithHostBucket(false), gofakes3.WithHostBucketBase())
		mode = "none"
	case "bases-replaced":
		// an option given twice: the later list replaces the earlier one (a default list that a caller overrides)
		opts = append(opts, gofakes3.WithHostBucketBase("old.example", "example.com"), gofakes3.WithHostBucketBase(bases...))
		mode = "bases"
	case "bases-switched-off":
		opts = append(opts, gofakes3.WithHostBucketBase(bases...), gofakes3.WithHostBucketBase())
		mode = "none"
	case "bases-switched-off-host":
		opts = append(opts, gofakes3.WithHostBucketBase(bases...), gofakes3.WithHostBucketBase(), gofakes3.WithHostBucket(true))
		mode = "host"
	}
	return &twin{name: name, mode: mode, bases: bases, rec: rec, h: newServer(be, opts...)}
}

var reVolatile = regexp.MustCompile(`<(RequestId|HostId|Location|LastModified|CreationDate|Initiated)>[^<]*</(RequestId|HostId|Location|LastModified|CreationDate|Initiated)>`)

func canon(r Resp) string {
	var hk []string
	for k, v := range r.Header {
		lk := strings.ToLower(k)
		if lk == "x-amz-id-2" || lk == "x-amz-request-id" || lk == "date" || lk == "last-modified" || lk == "location" {
			continue
		}
		hk = append(hk, lk+"="+strings.Join(v, ","))
	}
	sort.Strings(hk)
	body := reVolatile.ReplaceAllString(string(r.Body), "")
	return fmt.Sprintf("%d|%s|%s|%s", r.Status, r.Panic, strings.Join(hk, ";"), body)
}

type logical struct {
	method      string
	bucket, key string
	query       string
	hdr         [][2]string
	body        []byte
}

func (l logical) pathStyle(pre, post string) string {
	p := pre + "/" + pathEscape(l.bucket)
	if l.key != "" {
		p += "/" + pathEscape(l.key)
	}
	p += post
	if l.query != "" {
		p += "?" + l.query
	}
	return p
}
func (l logical) hostStyle() string {
	p := "/" + pathEscape(l.key)
	if l.query != "" {
		p += "?" + l.query
	}
	return p
}

func runC16(tier string, seed uint64) {
	rng := NewRng(seed)
	bases := []string{"s3.example.com", ".other.test:9000."}
	twins := []*twin{
		newTwin("path", "none", nil),
		newTwin("host", "host", nil),
		newTwin("base1", "bases", bases[:1]),
		newTwin("base2", "bases", bases),
		newTwin("base2-second", "bases", bases),
		newTwin("base-fallback-localhost", "bases", bases),
		newTwin("base-fallback-base-itself", "bases", bases),
		newTwin("base-fallback-multilabel", "bases", bases),
		newTwin("base-fallback-unrelated", "bases", bases),
		newTwin("base-fallback-no-dot", "bases", bases), // a host that merely ends in the text of a base
		newTwin("base-fallback-empty-label", "bases", bases),
		// dots around "<label>.<base>" make it another host: no "<single label>.<base>", so path-style
		newTwin("base-fallback-root-dot", "bases", bases),
		newTwin("base-fallback-leading-dot", "bases", bases),
		newTwin("base-fallback-two-root-dots", "bases", bases[:1]),
		// one base is a suffix of another: the longer one has to be reached whatever the order
		newTwin("base-nested-short-first", "bases", []string{"example.com", "s3.example.com"}),
		newTwin("base-nested-long-first", "bases", []string{"s3.example.com", "example.com"}),
		newTwin("base-nested-short-host", "bases", []string{"s3.example.com", "example.com"}),
		// a configured base that is itself "<bucket>.<another base>": as a Host it names that bucket
		newTwin("base-is-bucket-of-other-base", "bases", []string{"example.com", "bkt.example.com", "b-2.example.com"}),
		newTwin("base-is-bucket-of-other-base-rev", "bases", []string{"b-2.example.com", "bkt.example.com", "example.com"}),
		// both options at once (the documented precedence: the bases decide, everything else is path-style)
		newTwin("both-base1", "both", bases[:1]),
		newTwin("both-fallback-localhost", "both", bases),
		newTwin("both-fallback-base-itself", "both", bases),
		newTwin("both-fallback-multilabel", "both", bases),
		newTwin("both-fallback-unrelated", "both", bases),
		newTwin("opts-both-reversed", "both-reversed", bases[:1]),
		newTwin("opts-off-first", "bases-hostbucket-off-first", bases[:1]),
		newTwin("opts-off-last", "bases-hostbucket-off-last", bases[:1]),
		newTwin("opts-none-explicit", "none-explicit", nil),
		// bases that begin with the letters of a URL scheme (a base is a host name, taken as it is written)
		newTwin("base-scheme-letters-t", "bases", []string{"test.example", "host.example:9000"}),
		newTwin("base-scheme-letters-h", "bases", []string{"test.example", "host.example:9000"}),
		newTwin("base-scheme-letters-p", "bases", []string{"play.example", "p.example", "http.example"}),
		newTwin("base-scheme-letters-fallback", "bases", []string{"test.example", "host.example:9000"}),
		newTwin("opts-base-replaced", "bases-replaced", bases[:1]),
		newTwin("opts-base-replaced-old-host", "bases-replaced", bases[:1]),
		newTwin("opts-base-switched-off", "bases-switched-off", bases[:1]),
		newTwin("opts-base-switched-off-host", "bases-switched-off-host", bases[:1]),
		newTwin("path-extra-leading-slash", "none", nil),
		newTwin("path-trailing-slash", "none", nil),
	}
	buckets := []string{"bkt", "b-2"}
	keys := []string{"k", "d/e", "k with space", "\xc3\xbc", "a.b", "d/e/f.txt",
		"d//e", "d/./e", "x/../k", ".hid", "e..", "d/e/../e",
		"y=2024/p+0.q", "t/12:30", "a(b)!*'", "c@d,e;f",
		"bkt", "bkt/k", "b-2/d/e", "bkt.s3.example.com/k"} // keys named like the bucket, or beginning with its name, or with the whole host // ... and characters the SDKs send percent-encoded (net/url then keeps a RawPath) // segments a path cleaner would fold (all twins run on the memory backend)
	n := 400
	if tier == "thorough" {
		n = 6000
	}
	var uploads []string
	partsOf := map[string]map[int][]byte{}
	for i := 0; i < n; i++ {
		b := buckets[rng.Intn(len(buckets))]
		k := keys[rng.Intn(len(keys))]
		var l logical
		isComplete, isInitiate := false, false
		switch w := rng.Intn(100); {
		case w < 6:
			l = logical{method: "PUT", bucket: b}
			if rng.Intn(3) == 0 {
				// names create-bucket must refuse, in whatever form the request arrives (host names are not case-folded)
				l.bucket = []string{"AzA", "aaA", "A-9", "a_b", "ab", "-ab", "logs.bucket", "aaa.bbb", "logs.bucket", "a-1.b-2.c-3"}[rng.Intn(10)] // (and valid names of several labels, which only path-style addressing can carry)
			}
		case w < 24:
			l = logical{method: "PUT", bucket: b, key: k, body: []byte(fmt.Sprintf("body-%d", i)), hdr: [][2]string{{"X-Amz-Meta-I", strconv.Itoa(i)}}}
			if rng.Intn(4) == 0 {
				l.body = []byte{} // an empty object is addressed like any other, however many slashes follow its key
			}
		case w < 36:
			l = logical{method: "GET", bucket: b, key: k}
		case w < 40:
			l = logical{method: "GET", bucket: b, key: k, hdr: [][2]string{{"Range", "bytes=1-3"}}}
		case w < 45:
			l = logical{method: "HEAD", bucket: b, key: k}
		case w < 51:
			l = logical{method: "DELETE", bucket: b, key: k}
		case w < 56:
			l = logical{method: "GET", bucket: b, query: []string{"", "prefix=d&delimiter=%2F", "list-type=2&max-keys=2", "delimiter=%2F", "max-keys=1&marker=d%2Fe"}[rng.Intn(5)]}
		case w < 59:
			l = logical{method: "GET", bucket: b, query: "versions"}
		case w < 62:
			l = logical{method: "GET", bucket: b, query: []string{"location", "versioning", "uploads"}[rng.Intn(3)]}
		case w < 65:
			st := []string{"Enabled", "Suspended"}[rng.Intn(2)]
			l = logical{method: "PUT", bucket: b, query: "versioning", body: []byte("<VersioningConfiguration><Status>" + st + "</Status></VersioningConfiguration>")}
		case w < 68:
			l = logical{method: "HEAD", bucket: b}
		case w < 70:
			l = logical{method: "DELETE", bucket: b}
		case w < 74:
			l = logical{method: "POST", bucket: b, query: "delete", body: []byte("<Delete><Object><Key>" + xmlEsc(k) + "</Key></Object></Delete>")}
		case w < 79:
			src := buckets[rng.Intn(2)] + "/" + queryEscape(keys[rng.Intn(len(keys))])
			l = logical{method: "PUT", bucket: b, key: k, body: []byte{}, hdr: [][2]string{{"X-Amz-Copy-Source", "/" + src}}}
		case w < 84:
			l = logical{method: "POST", bucket: b, key: k, query: "uploads", body: []byte{}}
			isInitiate = true
		case w < 92 && len(uploads) > 0:
			u := strings.Split(uploads[rng.Intn(len(uploads))], "\x00")
			switch rng.Intn(5) {
			case 0, 1:
				pn := 1 + rng.Intn(3)
				pb := []byte(fmt.Sprintf("part-%d", i))
				l = logical{method: "PUT", bucket: u[0], key: u[1], query: "uploadId=" + u[2] + "&partNumber=" + strconv.Itoa(pn), body: pb}
				if partsOf[u[2]] == nil {
					partsOf[u[2]] = map[int][]byte{}
				}
				partsOf[u[2]][pn] = pb
			case 4:
				// complete with the parts uploaded so far (their ETags are the MD5s of what was sent)
				var nums []int
				for pn := range partsOf[u[2]] {
					nums = append(nums, pn)
				}
				sort.Ints(nums)
				xmlb := "<CompleteMultipartUpload>"
				for _, pn := range nums {
					sum := md5.Sum(partsOf[u[2]][pn])
					xmlb += fmt.Sprintf("<Part><PartNumber>%d</PartNumber><ETag>&quot;%s&quot;</ETag></Part>", pn, hex.EncodeToString(sum[:]))
				}
				xmlb += "</CompleteMultipartUpload>"
				l = logical{method: "POST", bucket: u[0], key: u[1], query: "uploadId=" + u[2], body: []byte(xmlb)}
				isComplete = true
			case 2:
				l = logical{method: "GET", bucket: u[0], key: u[1], query: "uploadId=" + u[2]}
			case 3:
				l = logical{method: "DELETE", bucket: u[0], key: u[1], query: "uploadId=" + u[2]}
			}
		case w < 96:
			l = logical{method: "GET", bucket: b, key: k, query: "versionId=3%2Fnope"}
		default:
			l = logical{method: []string{"PATCH", "OPTIONS", "POST"}[rng.Intn(3)], bucket: b, key: k}
		}
		var ref string
		for ti, t := range twins {
			host, path := "localhost", l.pathStyle("", "")
			switch t.name {
			case "host":
				host, path = l.bucket+".s3.example.com", l.hostStyle()
			case "base-nested-short-host", "base-is-bucket-of-other-base", "base-is-bucket-of-other-base-rev":
				host, path = l.bucket+".example.com", l.hostStyle()
			case "both-fallback-base-itself":
				host = "s3.example.com"
			case "both-fallback-multilabel":
				host = "x." + l.bucket + ".s3.example.com"
			case "both-fallback-unrelated":
				host = l.bucket + ".elsewhere.org"
			case "base-scheme-letters-t":
				host, path = l.bucket+".test.example", l.hostStyle()
			case "base-scheme-letters-h":
				host, path = l.bucket+".host.example:9000", l.hostStyle()
			case "base-scheme-letters-p":
				host, path = l.bucket+[]string{".play.example", ".p.example", ".http.example"}[len(l.key)%3], l.hostStyle()
			case "base-scheme-letters-fallback":
				host = l.bucket + ".est.example" // what is left of a base when its first letter is cut off names no base
			case "opts-base-replaced-old-host":
				host = l.bucket + ".old.example" // no longer a base: path-style
			case "opts-base-switched-off":
				host = l.bucket + ".s3.example.com" // no base is left: path-style
			case "opts-base-switched-off-host":
				host, path = l.bucket+".elsewhere.org", l.hostStyle()
			case "base1", "base2", "base-nested-short-first", "base-nested-long-first", "both-base1", "opts-both-reversed", "opts-off-first", "opts-off-last", "opts-base-replaced":
				host, path = l.bucket+".s3.example.com", l.hostStyle()
			case "base2-second":
				host, path = l.bucket+".other.test:9000", l.hostStyle()
			case "base-fallback-base-itself":
				host = "s3.example.com"
			case "base-fallback-multilabel":
				host = "x." + l.bucket + ".s3.example.com"
			case "base-fallback-unrelated":
				host = l.bucket + ".elsewhere.org"
			case "base-fallback-no-dot":
				host = l.bucket + "s3.example.com"
			case "base-fallback-empty-label":
				host = ".s3.example.com"
			case "base-fallback-root-dot":
				host = l.bucket + ".s3.example.com."
			case "base-fallback-leading-dot":
				host = "." + l.bucket + ".s3.example.com"
			case "base-fallback-two-root-dots":
				host = l.bucket + ".s3.example.com.."
			case "path-extra-leading-slash":
				path = l.pathStyle("//", "")
			case "path-trailing-slash":
				path = l.pathStyle("", "/")
			}
			if strings.Contains(l.bucket, ".") && path != l.pathStyle("", "") && !strings.HasPrefix(t.name, "path-") {
				// a bucket name of several labels cannot be the single label of a host: it is addressed path-style,
				// through a host that is no "<label>.<base>" (the plain host-bucket server has no such host)
				if t.mode == "host" {
					continue
				} else {
					host, path = "x.y."+strings.TrimLeft(strings.Trim(bases[0], "."), "."), l.pathStyle("", "")
				}
			}
			t.rec.reset()
			r := do(t.h, Req{Method: l.method, Path: path, Host: host, Header: l.hdr, Body: l.body})
			c := canon(r)
			if ti == 0 {
				ref = c
			}
			rawPath := path
			if q := strings.IndexByte(rawPath, '?'); q >= 0 {
				rawPath = rawPath[:q]
			}
			dec := pathUnescape(rawPath)
			isCopy := false
			for _, h := range l.hdr {
				if h[0] == "X-Amz-Copy-Source" {
					isCopy = true
				}
			}
			keysRec := t.rec.keys
			if isCopy {
				keysRec = nil // a copy also reads its source
			}
			emit("c16", "X", t.name, t.mode, joinHex(t.bases), hs(host), hs(dec), hs(l.bucket), hs(l.key), boolField(c == ref),
				joinHex(uniq(t.rec.buckets, isCopy)), joinHex(uniq(keysRec, false)), hs(l.method+" "+l.query))
			stat("variant-" + t.name)
			if isComplete {
				stat(fmt.Sprintf("complete-%d", r.Status))
			}
			if isInitiate && ti == 0 && r.Status == 200 {
				// the id the path-style server issued; every twin has seen the same history, so it is theirs too
				if ids := xmlAll(string(r.Body), "UploadId"); len(ids) == 1 {
					uploads = append(uploads, l.bucket+"\x00"+l.key+"\x00"+ids[0])
				}
			}
			if isComplete && r.Status == 200 {
				// the Location the server hands back names the object: following it on the same server reaches it
				if locs := xmlAll(string(r.Body), "Location"); len(locs) == 1 {
					if u, err := url.Parse(locs[0]); err == nil {
						g := do(t.h, Req{Method: "GET", Path: u.EscapedPath(), Host: u.Host})
						if g.Status == 200 {
							emit("c16", "GOOD", hs("Location of a completed upload leads to the object"))
						} else {
							emit("c16", "BAD", hs(fmt.Sprintf("twin %s: CompleteMultipartUpload of %s/%s via host %q answers Location %q; GET of that URL on the same server answers %d", t.name, l.bucket, l.key, host, locs[0], g.Status)))
						}
						stat("location-followed")
					}
				}
			}
			if c != ref {
				stat("differs-from-path-style")
			}
			nontrivial(t.name + "|" + l.method + "|" + l.query + "|" + l.bucket + "|" + l.key)
		}
	}
	c16Concurrent("bases", []gofakes3.Option{gofakes3.WithHostBucketBase("s3.example.com", "other.test")})
	c16Concurrent("host", []gofakes3.Option{gofakes3.WithHostBucket(true)})
	sample("each logical request (create/put/get/range/head/delete/list V1+V2/versions/location/versioning/multi-delete/copy/multipart initiate+part+list+complete (its Location followed)+abort/unknown methods over 2 buckets x 16 keys incl. spaces, UTF-8, dots, nesting, empty / '.' / '..' segments) is sent to 21 twin servers: path-style; host-bucket; host-bucket-base with one base, two bases (first and second base, configured with stray dots and a port), fallbacks (localhost, the base itself, multi-label prefix, unrelated host, a host that only ends in the text of a base), two bases one of which is a suffix of the other (both orders, both hosts), host-bucket and host-bucket-base configured together (base host and every fallback); path-style with an extra leading and a trailing slash")
}

func uniq(xs []string, skip bool) []string {
	if skip {
		return nil
	}
	seen := map[string]bool{}
	var out []string
	for _, x := range xs {
		if !seen[x] {
			seen[x] = true
			out = append(out, x)
		}
	}
	return out
}

func pathUnescape(p string) string {
	var sb strings.Builder
	for i := 0; i < len(p); i++ {
		if p[i] == '%' && i+2 < len(p) {
			if v, err := strconv.ParseUint(p[i+1:i+3], 16, 8); err == nil {
				sb.WriteByte(byte(v))
				i += 2
				continue
			}
		}
		sb.WriteByte(p[i])
	}
	return sb.String()
}

// c16Concurrent: the bucket a request addresses is decided by that request's Host alone, also while
// other requests with other hosts (other buckets, the second base, hosts that fall back to
// path-style) are being routed by the same server
func c16Concurrent(mode string, opts []gofakes3.Option) {
	st := newStore("mem")
	defer st.Close()
	h := newServer(st.Backend, opts...)
	buckets := []string{"alpha", "beta", "gamma-3", "delta"}
	for _, b := range buckets {
		do(h, Req{Method: "PUT", Path: "/", Host: b + ".s3.example.com"})
		do(h, Req{Method: "PUT", Path: "/who", Host: b + ".s3.example.com", Body: []byte("I am in " + b)})
	}
	var mu sync.Mutex
	var bad []string
	var wg sync.WaitGroup
	start := make(chan struct{})
	for c := 0; c < 16; c++ {
		wg.Add(1)
		go func(c int) {
			defer wg.Done()
			<-start
			for i := 0; i < 1500; i++ {
				b := buckets[(c+i)%len(buckets)]
				host := b + ".s3.example.com"
				switch {
				case mode == "bases" && (c+i)%5 == 1:
					host = b + ".other.test"
				case mode == "bases" && (c+i)%7 == 2:
					// a host that falls back to path-style (multi-label): it addresses the bucket of its path
					r := do(h, Req{Method: "GET", Path: "/" + b + "/who", Host: "x.y.s3.example.com"})
					if r.Status != 200 || string(r.Body) != "I am in "+b {
						mu.Lock()
						bad = append(bad, fmt.Sprintf("path-style fallback for %s/who answers %d %q", b, r.Status, truncate(r.Body, 30)))
						mu.Unlock()
					}
					continue
				}
				r := do(h, Req{Method: "GET", Path: "/who", Host: host})
				if r.Status != 200 || string(r.Body) != "I am in "+b {
					mu.Lock()
					if len(bad) < 6 {
						bad = append(bad, fmt.Sprintf("GET %s/who answers %d %q %s", host, r.Status, truncate(r.Body, 30), errCode(r.Body)))
					}
					mu.Unlock()
				}
			}
		}(c)
	}
	close(start)
	wg.Wait()
	if len(bad) > 0 {
		emit("c16", "BAD", hs(fmt.Sprintf("%s: 16 clients addressing 4 buckets by host at the same time: %s", mode, strings.Join(bad, "; "))))
	} else {
		emit("c16", "GOOD", hs(fmt.Sprintf("%s: 16 clients x 1500 host-style requests to 4 buckets at the same time: each is answered from the bucket its own Host names", mode)))
	}
	nontrivial("concurrent-hosts|" + mode)
}
