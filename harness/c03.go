package main

import (
	"fmt"
	"github.com/johannesboyne/gofakes3"
	"sort"
	"strings"
)

func init() { runners["c03"] = runC03; runners["c04"] = runC04 }

// all strings over {a,b,/} of length 1..3 that neither start nor end with '/'
func smallKeys() []string {
	var out []string
	var rec func(p string)
	rec = func(p string) {
		if len(p) > 0 && p[0] != '/' && p[len(p)-1] != '/' {
			out = append(out, p)
		}
		if len(p) == 3 {
			return
		}
		for _, c := range "ab/" {
			rec(p + string(c))
		}
	}
	rec("")
	sort.Strings(out)
	return out
}

func smallPrefixes() []string {
	out := []string{""}
	var rec func(p string)
	rec = func(p string) {
		if len(p) > 0 {
			out = append(out, p)
		}
		if len(p) == 3 {
			return
		}
		for _, c := range "ab/" {
			if len(p) == 0 && c == '/' {
				continue
			}
			rec(p + string(c))
		}
	}
	rec("")
	return out
}

func conflictFree(keys []string) bool {
	for _, a := range keys {
		for _, b := range keys {
			if a != b && strings.HasPrefix(b, a+"/") {
				return false
			}
		}
	}
	return true
}

func keySets(tier string, rng *Rng, forFs bool) [][]string {
	ks := smallKeys()
	var sets [][]string
	sets = append(sets, []string{})
	for i := range ks {
		sets = append(sets, []string{ks[i]})
		for j := i + 1; j < len(ks); j++ {
			sets = append(sets, []string{ks[i], ks[j]})
		}
	}
	n3, n4 := 120, 40
	if tier == "thorough" {
		n3, n4 = 816, 600
	}
	pick := func(n int) []string {
		seen := map[string]bool{}
		var s []string
		for len(s) < n {
			k := ks[rng.Intn(len(ks))]
			if !seen[k] {
				seen[k] = true
				s = append(s, k)
			}
		}
		sort.Strings(s)
		return s
	}
	for i := 0; i < n3; i++ {
		sets = append(sets, pick(3))
	}
	for i := 0; i < n4; i++ {
		sets = append(sets, pick(4+rng.Intn(3)))
	}
	// richer keys: '-' '.' next to '/', UTF-8, where directory-walk order and byte order differ
	rich := [][]string{
		{"a-x", "a/x", "a.x", "a0"},
		{"foo/bar/baz", "foo/bar-", "foo/ba", "foo/bar/", "foo.txt"},
		{"é/1", "e/2", "z", "é"},
		{"x/y/z/w", "x/y", "x-y/z", "x/y!"},
		{"dir/sub/a", "dir/sub/b", "dir/sub2/c", "dir2/d", "dir-", "dir.", "dir0"},
		// the top of the code-point range: 4-byte sequences sort after every 3-byte one (keys stay within the characters XML 1.0 can carry)
		{"docs/\U0001F600.txt", "docs/a", "docs/\uffee", "\U0001F600", "docs/\U0010FFFD", "docs/\u07ff"},
		// names a directory walk may treat specially: leading dots (not "." and ".." themselves), blanks, a tilde, a trailing dot
		{"docs/.config", "docs/.cache/x", "docs/a", ".top", ".d/x", "docs/..rc", "docs/ sp", "docs/~bak", "docs/end.", "..dd/x", "...e/y/z"},
		// keys whose base64 spelling needs the two symbols the standard and the URL alphabet disagree on (as the last key of a page they
		// end up in a continuation token)
		{"docs/old~.txt", "docs/why?.txt", "docs/ak\u65e5.txt", "docs/a>b", "docs/zz", "do>", "do?", "d~~", "???", ">>>>"},
	}
	for _, r := range rich {
		var clean []string
		for _, k := range r {
			if !strings.HasSuffix(k, "/") {
				clean = append(clean, k)
			}
		}
		sets = append(sets, clean)
	}
	if forFs {
		var f [][]string
		for _, s := range sets {
			if conflictFree(s) {
				f = append(f, s)
			}
		}
		return f
	}
	return sets
}

func richPrefixes(keys []string) []string {
	seen := map[string]bool{}
	var out []string
	for _, k := range keys {
		for i := 0; i <= len(k); i++ {
			p := k[:i]
			if !seen[p] && !strings.HasPrefix(p, "/") {
				seen[p] = true
				out = append(out, p)
			}
		}
	}
	out = append(out, "zz", "a", "foo/ba", "dir")
	return out
}

func isSmall(keys []string) bool {
	for _, k := range keys {
		if len(k) > 3 || strings.Trim(k, "ab/") != "" {
			return false
		}
	}
	return true
}

func runC03(tier string, seed uint64) {
	rng := NewRng(seed)
	c03WideDelimiter("mem")
	c03WideDelimiter("bolt")
	for _, kind := range allKinds {
		fs := kind != "mem" && kind != "bolt"
		sets := keySets(tier, NewRng(seed+7), fs)
		s := newSess("c03", kind, SessOpts{})
		b := singleBucketName
		if !isSingle(kind) {
			s.MkBucket(b)
		}
		ghost := kind == "mem"
		if ghost {
			s.SetVersioning(b, true)
		}
		delims := []string{"", "/"}
		if !fs {
			delims = append(delims, "b")
		}
		for si, keys := range sets {
			if fs && si%3 != 0 && len(keys) >= 2 && tier != "thorough" && isSmall(keys) {
				continue // fs backends: a third of the small-alphabet multi-key sets in the quick tier (every rich set)
			}
			for _, k := range keys {
				s.Put(b, k, []byte("body-of-" + k)[:5+len(k)], nil)
			}
			var verKeys []string
			var nested []string
			if fs && len(keys) > 0 && si%2 == 0 {
				// uploads one and two levels below a stored object: a file system cannot hold them and the
				// backend refuses them (the model is not told); whatever it answers, the object above stays
				// listed, and an upload it did accept is a key like any other
				top := keys[len(keys)-1]
				for _, nk := range []string{top + "/zz/y", top + "/zz"} {
					body := []byte("nested")
					if r := do(s.h, Req{Method: "PUT", Path: "/" + pathEscape(b) + "/" + pathEscape(nk), Body: body}); r.Status == 200 {
						s.emitPut(b, nk, body, r)
						nested = append(nested, nk)
					}
				}
			}
			if !ghost && len(keys) > 0 {
				// keys that were stored and deleted again leave nothing behind, whatever they are called
				// (on the memory backend the same is done with delete markers, below)
				for _, g := range []string{"zz-ghost/dir/leaf", "..gh/x", "zz-ghost/.h"} {
					s.Put(b, g, []byte("ghost"), nil)
				}
				for _, g := range []string{"zz-ghost/dir/leaf", "..gh/x", "zz-ghost/.h"} {
					s.Delete(b, g)
				}
			}
			if ghost && len(keys) > 0 {
				// a delete-marked key that must never be listed
				// (also ones that lie behind a delimiter: they must not surface as a common prefix)
				for _, g := range []string{keys[0] + "g", "g/h", "gbh", keys[0] + "/g"} {
					s.Put(b, g, []byte("ghost"), nil)
					s.Delete(b, g)
				}
				if si%4 == 1 {
					// removing the current version by its id makes the newest remaining one current (not the
					// oldest): the key is listed with that version's size and ETag; when the newest remaining
					// one is a delete marker the key is hidden again
					vk := keys[0] + "v"
					s.Put(b, vk, []byte("1"), nil)
					s.Put(b, vk, []byte("22"), nil)
					r3 := s.Put(b, vk, []byte("333"), nil)
					s.DeleteVersion(b, vk, r3.Header.Get("X-Amz-Version-Id"))
					s.Put(b, "gv/h", []byte("A"), nil)
					s.Delete(b, "gv/h")
					r2 := s.Put(b, "gv/h", []byte("BB"), nil)
					s.DeleteVersion(b, "gv/h", r2.Header.Get("X-Amz-Version-Id"))
					verKeys = []string{vk, "gv/h"}
				}
				if si%3 == 0 {
					// deleted once more while versioning is suspended (alone and in a multi-object delete): a key
					// that is hidden stays hidden
					s.SetVersioning(b, false)
					s.Delete(b, "g/h")
					s.MultiDelete(b, []KV{{K: keys[0] + "g"}})
					s.SetVersioning(b, true)
				}
			}
			var prefixes []string
			if isSmall(keys) {
				prefixes = smallPrefixes()
			} else {
				prefixes = richPrefixes(keys)
			}
			for _, p := range prefixes {
				for _, d := range delims {
					if d != "" && (strings.HasPrefix(p, d)) {
						continue
					}
					bad := false
					for _, k := range keys {
						if d != "" && (strings.HasPrefix(k, d) || strings.HasSuffix(k, d)) {
							bad = true
						}
					}
					if bad {
						continue
					}
					v2 := rng.Intn(4) == 0
					s.List(ListReq{Bucket: b, Prefix: p, Delim: d, MaxKeys: -1, V2: v2, EmptyDelim: d == "" && len(p)%2 == 1}) // an empty delimiter= is no delimiter
					if len(keys) > 0 {
						nontrivial(fmt.Sprint(kind, keys, p, d))
					}
				}
			}
			if !isSmall(keys) && kind == "mem" {
				// the richer sets also paged through (V2, one and two entries a page; every other walk hands the
				// server's continuation token back exactly as it came): the pages add up to the listing
				for _, mk := range []int{1, 2, 1, 2} {
					s.walk(b, "", "", mk, true, len(keys)+1)
				}
				s.walk(b, "docs/", "/", 1, true, len(keys)+1)
				// ... and from a start-after that is resent next to every continuation token, as SDK paginators do
				s.walkFrom(b, "", "", 1, true, len(keys)+1, keys[0][:1])
				s.walkFrom(b, "", "", 2, true, len(keys)+1, "!")
			}
			if kind == "mem" && len(keys) > 0 {
				// a listing that starts behind the last key (a paginator's last round, a marker the client
				// made up) shows nothing - it does not start over
				last := keys[0]
				for _, k := range keys {
					if k > last {
						last = k
					}
				}
				for _, past := range []string{last + "0", "\xf4\x8f\xbf\xbf"} {
					s.List(ListReq{Bucket: b, MaxKeys: -1, Marker: past, HasMarker: true})
					s.List(ListReq{Bucket: b, MaxKeys: 2, V2: true, Marker: past, HasMarker: true, StartAfter: true})
					s.List(ListReq{Bucket: b, Delim: "/", MaxKeys: 1, V2: true, Marker: past, HasMarker: true})
				}
			}
			// delete everything again (mem: versioned, so remove every version for a clean slate)
			for _, k := range nested {
				s.Delete(b, k)
			}
			for _, k := range verKeys {
				s.Delete(b, k)
			}
			for _, k := range keys {
				s.Delete(b, k)
			}
			if ghost {
				for _, v := range s.vids {
					for _, k := range keys {
						s.DeleteVersion(b, k, v)
					}
					if len(keys) > 0 {
						for _, g := range append([]string{keys[0] + "g", "g/h", "gbh", keys[0] + "/g"}, verKeys...) {
							s.DeleteVersion(b, g, v)
						}
					}
				}
				s.vids = nil
			}
			// neither do uploads the backend refused half way (a path segment no file system can name, below
			// segments it can): they never were keys
			if (kind == "fsdir" || kind == "sfsdir") && si%10 == 0 {
				long := strings.Repeat("n", 300)
				for _, rk := range []string{"r1/" + long + "/x", "r1/r2/" + long, "r3/r4/" + long + "/y/z"} {
					do(s.h, Req{Method: "PUT", Path: "/" + b + "/" + rk, Body: []byte("refused")})
				}
			}
			// after deletion nothing may be left over
			s.List(ListReq{Bucket: b, Delim: "/", MaxKeys: -1})
		}
		s.end()
	}
	c03Unclean("mem")
	c03Unclean("bolt")
	sample("key sets: all subsets of size <= 2 of the 18 keys over {a,b,/} (len <= 3, not starting/ending with '/'), seeded subsets of size 3..6, and 6 'rich' sets (a-x a/x a.x; UTF-8 incl. the top of the 3-byte range and 4-byte characters; nested dirs; segments beginning with a dot, a blank, a tilde)")
	sample("for each set: all 27 prefixes over {a,b,/} of length <= 3 not starting with '/', delimiter none and '/' (and 'b', and the multi-byte characters é and € with an oracle written from the statement, on mem/bolt), V1 or V2; mem runs versioned with delete-marked ghost keys (next to a live key, below it, and behind each delimiter)")
}

// c03Unclean: on the key-value backends a key is a byte string: "u//v", "u/./w" and "u/../x" are keys of their
// own next to "u/v", "u/w" and "x", listed under their own names with their own sizes, whether the requests
// name the bucket in the path or in the Host header
func c03Unclean(kind string) {
	for _, host := range []string{"", "base", "host"} {
		s := newSess("c03", kind, SessOpts{})
		switch host {
		case "base":
			s.h = hostStyle{inner: newServer(s.st.Backend, gofakes3.WithHostBucketBase("s3.example.com")), base: "s3.example.com"}
		case "host":
			s.h = hostStyle{inner: newServer(s.st.Backend, gofakes3.WithHostBucket(true)), base: "s3.example.com"}
		}
		b := singleBucketName
		s.MkBucket(b)
		keys := []string{"u/v", "u//v", "u/./w", "u/w", "u/../x", "x", "u///v"}
		for i, k := range keys {
			s.Put(b, k, []byte(strings.Repeat("z", i+1)), nil)
		}
		lists := func() {
			for _, pd := range [][2]string{{"", ""}, {"u", ""}, {"u/", "/"}, {"", "/"}, {"u//", "/"}, {"u/.", ""}} {
				s.List(ListReq{Bucket: b, Prefix: pd[0], Delim: pd[1], MaxKeys: -1})
				s.List(ListReq{Bucket: b, Prefix: pd[0], Delim: pd[1], MaxKeys: -1, V2: true})
			}
		}
		lists()
		s.Delete(b, "u//v")
		s.Delete(b, "u/./w")
		lists()
		nontrivial(kind + "|unclean|" + host)
		s.end()
	}
}

// ---------------------------------------------------------------- C04

func (s *Sess) walk(b, prefix, delim string, maxKeys int, v2 bool, nKeys int) {
	s.walkFrom(b, prefix, delim, maxKeys, v2, nKeys, "")
}

// walkFrom: sa != "" (V2 only) starts the walk with start-after=sa and, like the SDK paginators,
// repeats that parameter next to the continuation token on every later page
func (s *Sess) walkFrom(b, prefix, delim string, maxKeys int, v2 bool, nKeys int, sa string) {
	emit(s.prop, "WB", fmt.Sprint(maxKeys))
	s.walks++
	marker, has := "", false
	rawToken := ""
	terminated := false
	for page := 0; page < nKeys+6; page++ {
		q := ListReq{Bucket: b, Prefix: prefix, Delim: delim, Marker: marker, HasMarker: has, MaxKeys: maxKeys, V2: v2, RawToken: rawToken}
		if page == 0 && sa == "" && s.walks%3 == 2 {
			// a client loop that always sends its marker variable: the parameter is present and empty on
			// the first page (marker= / start-after= / continuation-token=), which is the same as absent
			q.HasMarker, q.StartAfter = true, v2 && s.walks%2 == 0
		}
		if sa != "" {
			if !has {
				q.Marker, q.HasMarker, q.StartAfter = sa, true, true
			} else {
				q.AlsoStartAfter = sa
			}
		}
		r := s.List(q)
		if r.Resp.Status != 200 {
			break
		}
		if !r.Truncated {
			terminated = true
			break
		}
		// continuation the server hands back
		next := r.Next
		if next == "" && !v2 && len(r.Keys) > 0 {
			next = r.Keys[len(r.Keys)-1] // V1 without delimiter: last key
		}
		if next == "" {
			break // truncated but no way to continue
		}
		marker, has = next, true
		rawToken = ""
		if v2 && s.walks%2 == 1 {
			rawToken = r.NextRaw // every other V2 walk hands the server's token back as it came
		}
	}
	emit(s.prop, "WF")
	if sa != "" {
		s.List(ListReq{Bucket: b, Prefix: prefix, Delim: delim, MaxKeys: -1, V2: v2, Marker: sa, HasMarker: true, StartAfter: true})
	} else {
		s.List(ListReq{Bucket: b, Prefix: prefix, Delim: delim, MaxKeys: -1, V2: v2})
	}
	emit(s.prop, "WE", boolField(terminated))
}

// c04LeadingDelimiter: the witness of known finding D32. Prefix.Match strips leading delimiters from
// a key, so "/a/x" and "a/y" fall under the same common prefix "a/" although "0" sorts between them;
// the unpaginated listing reports it once, a walk with max-keys 1 reports it on two pages.
func c04LeadingDelimiter() {
	s := newSess("c04", "mem", SessOpts{})
	b := singleBucketName
	s.MkBucket(b)
	emit("c04", "NOTE", hs("leading-delimiter-key"))
	for _, k := range []string{"/a/x", "0", "a/y"} {
		s.Put(b, k, []byte(k), nil)
	}
	s.walk(b, "", "/", 1, false, 4)
	s.walk(b, "", "/", 1, true, 4)
	s.end()
}

// c04EncodedKeys: keys whose bytes a URL decoder would change ('+', '%41', '%2F', '%25') are keys like
// any other: every continuation the server hands back resumes exactly after them, whether or not
// the client asks for encoding-type=url (which this server answers unencoded)
func c04EncodedKeys() {
	s := newSess("c04", "mem", SessOpts{})
	b := singleBucketName
	s.MkBucket(b)
	keys := []string{"a b", "a+b", "a%2Bb", "a%41", "aA", "p q/y", "p+q/x", "p%2Fq", "z%25", "z%zz", "%", "+"}
	for _, k := range keys {
		s.Put(b, k, []byte(k), nil)
	}
	for _, extra := range []string{"", "encoding-type=url"} {
		s.listExtra = extra
		for _, pd := range [][2]string{{"", ""}, {"", "/"}, {"a", ""}, {"p", "/"}} {
			for mk := 1; mk <= len(keys)+1; mk++ {
				for _, v2 := range []bool{false, true} {
					s.walk(b, pd[0], pd[1], mk, v2, len(keys)+1)
					nontrivial(fmt.Sprint("encoded-keys", extra, pd, mk, v2))
				}
			}
			s.walkFrom(b, pd[0], pd[1], 2, true, len(keys)+1, "a+b")
			s.walkFrom(b, pd[0], pd[1], 1, true, len(keys)+1, "a%41")
		}
	}
	s.listExtra = ""
	s.end()
}

// c04SuspendedDeletes: keys hidden by deletes made while versioning is suspended (over versions written
// while it was enabled) sit inside groups of live keys; the walks pass over them like over any other
// delete-marked key
func c04SuspendedDeletes() {
	s := newSess("c04", "mem", SessOpts{})
	b := singleBucketName
	s.MkBucket(b)
	s.SetVersioning(b, true)
	keys := []string{"a/1", "a/2", "a/3", "b", "c/1", "c/2", "d-1", "d-2"}
	for _, k := range keys {
		s.Put(b, k, []byte(k), nil)
	}
	s.SetVersioning(b, false)
	for _, k := range []string{"a/2", "c/2", "d-1"} {
		s.Delete(b, k)
	}
	for _, pd := range [][2]string{{"", "/"}, {"", ""}, {"a/", "/"}, {"", "-"}, {"c", "/"}} {
		for mk := 1; mk <= 6; mk++ {
			for _, v2 := range []bool{false, true} {
				s.walk(b, pd[0], pd[1], mk, v2, len(keys)+1)
				nontrivial(fmt.Sprint("suspended-deletes", pd, mk, v2))
			}
		}
	}
	s.end()
}

func runC04(tier string, seed uint64) {
	rng := NewRng(seed)
	c04LeadingDelimiter()
	c04EncodedKeys()
	c04SuspendedDeletes()
	// (1) paginating backend
	{
		sets := keySets(tier, NewRng(seed+7), false)
		s := newSess("c04", "mem", SessOpts{})
		b := singleBucketName
		s.MkBucket(b)
		s.SetVersioning(b, true)
		for si, keys := range sets {
			if len(keys) == 0 || (tier != "thorough" && len(keys) == 2 && si%4 != 0) {
				continue
			}
			for _, k := range keys {
				s.Put(b, k, []byte(k), nil)
			}
			g := keys[len(keys)/2] + "g" // delete-marked key in the middle
			s.Put(b, g, []byte("ghost"), nil)
			s.Delete(b, g)
			prefixes := []string{"", "a", "a/", "b", "ab"}
			if !isSmall(keys) {
				prefixes = []string{"", keys[0][:1], "foo/", "dir/", "x/"}
			}
			for _, p := range prefixes {
				for _, d := range []string{"", "/", "b"} {
					bad := d != "" && strings.HasPrefix(p, d)
					for _, k := range keys {
						if d != "" && strings.HasPrefix(k, d) { // a key may end with the delimiter (next to keys below it); one that begins with it is known finding D32
							bad = true
						}
					}
					if bad {
						continue
					}
					for mk := 1; mk <= len(keys)+1; mk++ {
						v2 := rng.Bool()
						s.walk(b, p, d, mk, v2, len(keys)+1)
						nontrivial(fmt.Sprint(keys, p, d, mk, v2))
						if mk <= 2 && len(keys) > 0 {
							// V2 from a start-after that is repeated next to every continuation token
							sa := keys[rng.Intn(len(keys))]
							if rng.Bool() {
								sa = sa[:len(sa)-1]
							}
							if sa != "" {
								s.walkFrom(b, p, d, mk, true, len(keys)+1, sa)
							}
						}
					}
					// arbitrary markers: each key, key with last byte +-1, beyond the end
					var markers []string
					for _, k := range keys {
						markers = append(markers, k, k[:len(k)-1]+string(k[len(k)-1]+1), k[:len(k)-1]+string(k[len(k)-1]-1), k+"/")
					}
					markers = append(markers, "zzzz", "\x01", "a/")
					for _, m := range markers {
						if rng.Intn(3) != 0 {
							continue
						}
						v2 := rng.Bool()
						s.List(ListReq{Bucket: b, Prefix: p, Delim: d, Marker: m, HasMarker: true, MaxKeys: 1 + rng.Intn(len(keys)+1), V2: v2, StartAfter: v2 && rng.Bool()})
					}
				}
			}
			for _, k := range keys {
				s.Delete(b, k)
			}
			for _, v := range s.vids {
				for _, k := range keys {
					s.DeleteVersion(b, k, v)
				}
				s.DeleteVersion(b, g, v)
			}
			s.vids = nil
		}
		s.end()
	}
	// (2) backends without pagination: complete listing, or NotImplemented when configured
	for _, kind := range allKinds {
		if kind == "mem" {
			continue
		}
		for _, fail := range []bool{false, true} {
			s := newSess("c04", kind, SessOpts{FailPage: fail})
			b := singleBucketName
			if !isSingle(kind) {
				s.MkBucket(b)
			}
			keys := []string{"a/1", "a/2", "b", "c/d/e", "f"}
			for _, k := range keys {
				s.Put(b, k, []byte(k), nil)
			}
			for _, d := range []string{"", "/"} {
				for mk := 0; mk <= 6; mk++ {
					for _, v2 := range []bool{false, true} {
						s.List(ListReq{Bucket: b, Delim: d, MaxKeys: mk, V2: v2})
						s.List(ListReq{Bucket: b, Delim: d, MaxKeys: mk, V2: v2, Marker: "b", HasMarker: true})
						nontrivial(fmt.Sprint(kind, fail, d, mk, v2))
					}
				}
				s.List(ListReq{Bucket: b, Delim: d, MaxKeys: -1})
			}
			s.end()
		}
	}
	sample("walks: for key sets as in C03 x prefixes {'',a,a/,b,ab} x delimiter {none,/,b} x max-keys 1..n+1, V1 (NextMarker or last key) and V2 (continuation token; also starting from a start-after that is resent with every token, as SDK paginators do) followed to the end and compared with the unpaginated listing; delete-marked ghost key present")
	sample("single pages from arbitrary markers (each key, last byte +-1, key+'/', beyond the end, start-after); bolt/fs: every max-keys 0..6 with and without marker, WithUnimplementedPageError on and off")
}

// c03WideDelimiter: a delimiter that is a single character but several bytes long (the model's
// delimiter is one byte, so the C03 clause is evaluated here, directly from its statement: a key
// that matches the prefix is listed under Contents if no delimiter follows the prefix, and is
// otherwise represented by the common prefix "prefix + segment up to and including the delimiter")
func c03WideDelimiter(kind string) {
	s := newSess("c03", kind, SessOpts{})
	emit("c03", "NOMODEL")
	b := singleBucketName
	s.MkBucket(b)
	keys := []string{"aéx", "aéy", "béd", "bécéz", "plain", "c€d€e", "c€f", "cé€g"}
	for _, k := range keys {
		s.Put(b, k, []byte("v-"+k), nil)
	}
	for _, d := range []string{"é", "€"} {
		for _, p := range []string{"", "a", "aé", "b", "bé", "béc", "c", "c€", "c€d€", "zz"} {
			if strings.HasPrefix(p, d) {
				continue
			}
			var wantKeys []string
			wantPre := map[string]bool{}
			for _, k := range keys {
				if !strings.HasPrefix(k, p) {
					continue
				}
				rest := k[len(p):]
				if i := strings.Index(rest, d); i >= 0 {
					wantPre[p+rest[:i+len(d)]] = true
				} else {
					wantKeys = append(wantKeys, k)
				}
			}
			sort.Strings(wantKeys)
			var wp []string
			for x := range wantPre {
				wp = append(wp, x)
			}
			sort.Strings(wp)
			for _, v2 := range []bool{false, true} {
				r := s.List(ListReq{Bucket: b, Prefix: p, Delim: d, MaxKeys: -1, V2: v2})
				gp := append([]string{}, r.Prefixes...)
				sort.Strings(gp)
				ok := r.Resp.Status == 200 && fmt.Sprint(r.Keys) == fmt.Sprint(wantKeys) && fmt.Sprint(gp) == fmt.Sprint(wp)
				msg := fmt.Sprintf("%s list prefix=%q delimiter=%q v2=%v: keys %q common prefixes %q (the statement gives keys %q common prefixes %q)", kind, p, d, v2, r.Keys, gp, wantKeys, wp)
				if ok {
					emit("c03", "GOOD", hs(msg))
				} else {
					emit("c03", "BAD", hs(msg))
				}
				nontrivial(fmt.Sprint(kind, "wide", p, d, v2))
			}
		}
	}
	s.end()
}
