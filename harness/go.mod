module verifharness

go 1.16

require (
	github.com/johannesboyne/gofakes3 v0.0.0
	github.com/spf13/afero v1.2.1
	go.etcd.io/bbolt v1.3.5
)

replace github.com/johannesboyne/gofakes3 => /repo
