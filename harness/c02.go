package main

import (
	"fmt"
)

func init() { runners["c02"] = runC02 }

type univ struct {
	buckets []string
	keys    []string
	rkeys   []string // keys that are only read, deleted or copied from: never written, so they read as NoSuchKey
	bodies  [][]byte
}

func univFor(kind string) univ {
	u := univ{bodies: [][]byte{[]byte("X"), []byte("YY"), {}}}
	if isSingle(kind) {
		u.buckets = []string{singleBucketName}
	} else {
		u.buckets = []string{singleBucketName, singleBucketName + "2"} // one name begins with the other: still two buckets
	}
	if kind == "mem" || kind == "bolt" || kind == "boltbin" {
		u.keys = []string{"a", "a/b", "a/c", "d", "a_b"}
	} else {
		// fs backends: conflict-free key domain (no key is a path-prefix of another)
		u.keys = []string{"a/b", "a/c", "d", "e/f/g", "a_b"} // a_b: distinct from a/b however a backend flattens names
		// ... and keys below those (d/x, a/b/c) or above them (a, e/f): read, deleted and copied from like any
		// key, and every fifth upload goes to one of them — the model (Model/FsPut.v) says which of these a
		// directory tree can take at that moment and which are refused with InvalidArgument
		u.rkeys = []string{"d/x", "a/b/c", "a", "e/f", "d/x/y"}
	}
	return u
}

// one random operation of the C02 alphabet
func c02RandomOp(s *Sess, u univ, rng *Rng) {
	b := u.buckets[rng.Intn(len(u.buckets))]
	k := u.keys[rng.Intn(len(u.keys))]
	rk := k // for operations that do not write
	if len(u.rkeys) > 0 && rng.Intn(4) == 0 {
		rk = u.rkeys[rng.Intn(len(u.rkeys))]
	}
	if len(u.rkeys) > 0 && rng.Intn(5) == 0 {
		k = u.rkeys[rng.Intn(len(u.rkeys))] // an upload / copy destination that may be in the way of, or below, a stored key
	}
	single := isSingle(s.kind)
	switch w := rng.Intn(100); {
	case w < 8:
		if !single {
			s.MkBucket(b)
		} else {
			s.HeadBucket(b)
		}
	case w < 13:
		if !single {
			s.RmBucket(b)
		} else {
			s.ListBuckets()
		}
	case w < 16:
		s.HeadBucket(b)
	case w < 19:
		s.ListBuckets()
	case w < 42:
		var m []KV
		switch rng.Intn(4) { // metadata travels with the object: overwritten, copied, deleted along with it
		case 1:
			m = []KV{{"X-Amz-Meta-Tag", string(rune('a' + rng.Intn(3)))}}
		case 2:
			m = []KV{{"Content-Type", "text/x-" + string(rune('a'+rng.Intn(3)))}, {"X-Amz-Meta-Other", "o"}}
		case 3:
			if rng.Bool() {
				// a header sent with an empty value is sent: it replaces what the key carried before
				m = []KV{{"X-Amz-Meta-Tag", ""}, {"X-Amz-Meta-Other", []string{"", "p"}[rng.Intn(2)]}}
			}
		}
		s.Put(b, k, u.bodies[rng.Intn(len(u.bodies))], m)
	case w < 57:
		s.Get(b, rk, "")
	case w < 62:
		s.Head(b, rk, "")
	case w < 74:
		s.Delete(b, rk)
	case w < 80:
		n := 1 + rng.Intn(3)
		var ks []KV
		for i := 0; i < n; i++ {
			if len(u.rkeys) > 0 && rng.Intn(4) == 0 {
				ks = append(ks, KV{K: u.rkeys[rng.Intn(len(u.rkeys))]})
				continue
			}
			ks = append(ks, KV{K: u.keys[rng.Intn(len(u.keys))]})
		}
		s.MultiDelete(b, ks)
	case w < 92:
		sb := u.buckets[rng.Intn(len(u.buckets))]
		sk := u.keys[rng.Intn(len(u.keys))]
		if rng.Intn(5) == 0 { // self copy
			sb, sk = b, k
		} else if len(u.rkeys) > 0 && rng.Intn(5) == 0 {
			sk = u.rkeys[rng.Intn(len(u.rkeys))]
		}
		var cm []KV
		if rng.Intn(3) == 0 {
			// a copy request with metadata of its own (onto itself: the way to change an object's metadata
			// in place); it wins over what the source carries
			cm = []KV{{"X-Amz-Meta-Tag", string(rune('x' + rng.Intn(3)))}}
			if rng.Bool() {
				cm = append(cm, KV{"Content-Type", "text/x-copy"})
			}
		}
		s.CopyWith(sb, sk, b, k, cm)
	default:
		s.List(ListReq{Bucket: b, MaxKeys: -1})
	}
}

func c02Probe(s *Sess, u univ) {
	s.ListBuckets()
	for _, b := range u.buckets {
		s.List(ListReq{Bucket: b, MaxKeys: -1})
		for _, k := range u.keys {
			s.Get(b, k, "")
		}
		for _, k := range u.rkeys {
			s.Get(b, k, "")
			s.Head(b, k, "")
		}
	}
}

func runC02(tier string, seed uint64) {
	rng := NewRng(seed)
	// (1) exhaustive short sequences on the memory backend
	b1, b2 := singleBucketName, singleBucketName+"2"
	X, Y := []byte("X"), []byte("YY")
	type sym func(s *Sess)
	alphabet := []sym{
		func(s *Sess) { s.MkBucket(b1) }, func(s *Sess) { s.MkBucket(b2) },
		func(s *Sess) { s.RmBucket(b1) }, func(s *Sess) { s.RmBucket(b2) },
		func(s *Sess) { s.Put(b1, "a", X, nil) }, func(s *Sess) { s.Put(b1, "a", Y, nil) },
		func(s *Sess) { s.Put(b1, "a/b", X, nil) }, func(s *Sess) { s.Put(b2, "a", Y, nil) },
		func(s *Sess) { s.Get(b1, "a", "") }, func(s *Sess) { s.Head(b1, "a/b", "") },
		func(s *Sess) { s.Delete(b1, "a") }, func(s *Sess) { s.Delete(b1, "a/b") },
		func(s *Sess) { s.MultiDelete(b1, []KV{{K: "a"}, {K: "a/b"}}) },
		func(s *Sess) { s.Copy(b1, "a", b1, "a/b") }, func(s *Sess) { s.Copy(b1, "a", b1, "a") },
		func(s *Sess) { s.Copy(b1, "a/b", b2, "a") }, func(s *Sess) { s.Copy(b2, "a", b1, "a") },
		func(s *Sess) { s.HeadBucket(b1) },
	}
	depth := 3
	if tier == "thorough" {
		depth = 4
	}
	u := univ{buckets: []string{b1, b2}, keys: []string{"a", "a/b"}}
	for _, auto := range []bool{false, true} {
		if auto && depth > 3 {
			continue
		}
		idx := make([]int, depth)
		for {
			s := newSess("c02", "mem", SessOpts{Auto: auto})
			if !auto {
				// start from one existing bucket so that most sequences do something
				s.MkBucket(b1)
			}
			for _, i := range idx {
				alphabet[i](s)
			}
			c02Probe(s, u)
			s.end()
			nontrivial(fmt.Sprint("exh", auto, idx))
			// next
			j := depth - 1
			for j >= 0 {
				idx[j]++
				if idx[j] < len(alphabet) {
					break
				}
				idx[j] = 0
				j--
			}
			if j < 0 {
				break
			}
		}
	}
	// (2) seeded random sequences on every backend, with and without auto-bucket
	nseq, length := 12, 40
	if tier == "thorough" {
		nseq, length = 150, 60
	}
	for _, kind := range allKinds {
		for _, auto := range []bool{false, true} {
			if auto && isSingle(kind) {
				continue
			}
			for i := 0; i < nseq; i++ {
				// every fourth history on the memory backend runs it with versioning support switched off
				// (the plain Backend interface: DeleteMulti instead of DeleteMultiVersions, ...)
				s := newSess("c02", kind, SessOpts{Auto: auto, NoVer: kind == "mem" && i%4 == 3})
				u := univFor(kind)
				if !auto && !isSingle(kind) && rng.Intn(4) > 0 {
					s.MkBucket(u.buckets[0])
				}
				for j := 0; j < length; j++ {
					c02RandomOp(s, u, rng)
				}
				c02Probe(s, u)
				if i%3 == 0 {
					c02Nesting(s, u.buckets[0])
				}
				s.end()
				nontrivial(fmt.Sprint("rnd", kind, auto, i))
			}
		}
	}
	sample("exhaustive: all sequences of length 3 over 18 symbols (mkb/rmb/put/get/head/del/mdel/copy incl. self-copy/hdb) on mem, then probe (lsb, list, get every key)")
	sample("random: 40 ops per sequence over 2 buckets x 4 keys x 3 bodies x 7 metadata sets; weights put 23 get 15 del 12 copy 12 mdel 6 mkb 8 rmb 5 list 8 ...")
}

// c02Nesting (last step of a history; not through the model: whether a backend can hold a key and a
// key below it at the same time is the backend's business): an upload below an existing object, and
// an upload onto a name that holds other keys, may be refused or stored, but the acknowledged
// object that was there first keeps reading as written, and what was acknowledged is readable
func c02Nesting(s *Sess, b string) {
	if s.st.Ext != nil {
		return
	}
	if r := do(s.h, Req{Method: "HEAD", Path: "/" + b}); r.Status != 200 {
		return
	}
	get := func(k string) (int, string) {
		g := do(s.h, Req{Method: "GET", Path: "/" + b + "/" + k})
		return g.Status, string(g.Body)
	}
	for _, sc := range [][2]string{{"nest", "nest/x"}, {"nest2", "nest2/y/z"}, {"top/leaf", "top"}, {"p/q/r", "p/q"}} {
		first, second := sc[0], sc[1]
		r1 := do(s.h, Req{Method: "PUT", Path: "/" + b + "/" + first, Body: []byte("first:" + first)})
		if r1.Status != 200 {
			continue
		}
		r2 := do(s.h, Req{Method: "PUT", Path: "/" + b + "/" + second, Body: []byte("second:" + second)})
		s1, b1 := get(first)
		s2, b2 := get(second)
		// what is served is listed, what is not served is not
		l := do(s.h, Req{Method: "GET", Path: "/" + b})
		listed := map[string]bool{}
		for _, lk := range xmlAll(string(l.Body), "Key") {
			listed[lk] = true
		}
		ok := s1 == 200 && b1 == "first:"+first && ((r2.Status >= 400 && s2 == 404) || (r2.Status == 200 && s2 == 200 && b2 == "second:"+second)) &&
			l.Status == 200 && listed[first] && listed[second] == (s2 == 200)
		msg := fmt.Sprintf("%s: PUT %q (200) then PUT %q (%d): GET %q answers %d %q, GET %q answers %d %q; the bucket listing (%d) shows %q: %v, %q: %v", s.kind, first, second, r2.Status, first, s1, b1, second, s2, b2, l.Status, first, listed[first], second, listed[second])
		if ok {
			emit(s.prop, "GOOD", hs(msg))
		} else {
			emit(s.prop, "BAD", hs("S:acknowledged-write-lost-to-a-nested-key "+msg))
		}
		do(s.h, Req{Method: "DELETE", Path: "/" + b + "/" + second})
		do(s.h, Req{Method: "DELETE", Path: "/" + b + "/" + first})
	}
}
