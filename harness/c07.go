package main

import (
	"fmt"
	"io"
	"net/http"
	"net/http/httptest"
	"strconv"
	"sync"
	"time"
)

func init() { runners["c07"] = runC07 }

// gatedReader blocks in its first Read until released (a slow uploader)
type gatedReader struct {
	data    []byte
	entered chan struct{}
	release chan struct{}
	once    sync.Once
}

func (g *gatedReader) Read(p []byte) (int, error) {
	g.once.Do(func() { close(g.entered); <-g.release })
	if len(g.data) == 0 {
		return 0, io.EOF
	}
	n := copy(p, g.data)
	g.data = g.data[n:]
	return n, nil
}

// gatedWriter blocks in its first Write until released (a slow downloader)
type gatedWriter struct {
	rec     *httptest.ResponseRecorder
	entered chan struct{}
	release chan struct{}
	once    sync.Once
}

func (g *gatedWriter) Header() http.Header  { return g.rec.Header() }
func (g *gatedWriter) WriteHeader(code int) { g.rec.WriteHeader(code) }
func (g *gatedWriter) Write(p []byte) (int, error) {
	g.once.Do(func() { close(g.entered); <-g.release })
	return g.rec.Write(p)
}

func waitOr(ch chan struct{}, d time.Duration) bool {
	select {
	case <-ch:
		return true
	case <-time.After(d):
		return false
	}
}

// emit an observation made outside Sess.do in the shape of a Sess op
func (s *Sess) emitGet(b, k string, r Resp) { s.emitOp("get", []string{hs(b), hs(k), "-"}, obsT{r: r}) }
func (s *Sess) emitPut(b, k string, body []byte, r Resp) {
	s.emitOp("put", []string{hs(b), hs(k), hx(body), "-"}, obsT{r: r})
}

func c07Forced(kind string, rng *Rng) {
	s := newSess("c07", kind, SessOpts{})
	b := singleBucketName
	if !isSingle(kind) {
		s.MkBucket(b)
	}
	old := rng.Bytes(50000)
	neu := rng.Bytes(70000)
	s.Put(b, "k", old, nil)
	s.Put(b, "other", []byte("other"), nil)

	// (1) slow uploader: the body of PUT k arrives while other requests complete
	{
		gr := &gatedReader{data: append([]byte{}, neu...), entered: make(chan struct{}), release: make(chan struct{})}
		done := make(chan Resp, 1)
		go func() {
			done <- do(s.h, Req{Method: "PUT", Path: "/" + b + "/k", Reader: gr, Header: [][2]string{{"Content-Length", strconv.Itoa(len(neu))}}})
		}()
		if !waitOr(gr.entered, 5*time.Second) {
			emit("c07", "HANG", hs("PUT never started reading its body"))
		}
		// meanwhile: reads and writes by other clients must complete and see the old object
		type res struct {
			r    Resp
			hung bool
		}
		var g1, g2, g3 res
		g1.r, g1.hung = doDeadline(s.h, Req{Method: "GET", Path: "/" + b + "/k"}, 5*time.Second)
		g2.r, g2.hung = doDeadline(s.h, Req{Method: "PUT", Path: "/" + b + "/other", Body: []byte("other-2")}, 5*time.Second)
		g3.r, g3.hung = doDeadline(s.h, Req{Method: "GET", Path: "/" + b + "?prefix=k"}, 5*time.Second)
		if g1.hung || g2.hung || g3.hung {
			emit("c07", "HANG", hs("requests of other clients block while an upload body is in flight"))
		} else {
			s.emitGet(b, "k", g1.r)
			s.emitPut(b, "other", []byte("other-2"), g2.r)
		}
		close(gr.release)
		select {
		case r := <-done:
			s.emitPut(b, "k", neu, r)
		case <-time.After(5 * time.Second):
			emit("c07", "HANG", hs("slow PUT never completed"))
		}
		s.Get(b, "k", "")
		nontrivial(kind + "|slow-uploader")
	}
	// (2) slow reader: the download of k overlaps an overwrite and a delete
	for _, second := range []string{"overwrite", "delete"} {
		cur := neu
		gw := &gatedWriter{rec: httptest.NewRecorder(), entered: make(chan struct{}), release: make(chan struct{})}
		done := make(chan struct{})
		rq := httptest.NewRequest("GET", "http://localhost/"+b+"/k", nil)
		go func() {
			defer func() { recover(); close(done) }()
			s.h.ServeHTTP(gw, rq)
		}()
		if !waitOr(gw.entered, 5*time.Second) {
			emit("c07", "HANG", hs("GET never started streaming"))
		}
		var r2 Resp
		var hung bool
		next := rng.Bytes(30000)
		var more [][]byte
		var moreR []Resp
		if second == "overwrite" {
			r2, hung = doDeadline(s.h, Req{Method: "PUT", Path: "/" + b + "/k", Body: next}, 5*time.Second)
			// several more writes while the download is stalled (storage freed by one write may be
			// reused by a later one: the download must not be reading it)
			for _, sz := range []int{90000, 20, 60000} {
				nb := rng.Bytes(sz)
				rr, h2 := doDeadline(s.h, Req{Method: "PUT", Path: "/" + b + "/k", Body: nb}, 5*time.Second)
				hung = hung || h2
				more, moreR = append(more, nb), append(moreR, rr)
				doDeadline(s.h, Req{Method: "PUT", Path: "/" + b + "/scratchpad", Body: rng.Bytes(40000)}, 5*time.Second)
			}
		} else {
			r2, hung = doDeadline(s.h, Req{Method: "DELETE", Path: "/" + b + "/k"}, 5*time.Second)
		}
		close(gw.release)
		if !waitOr(done, 5*time.Second) || hung {
			emit("c07", "HANG", hs("overlapping download / "+second+" do not both complete"))
			break
		}
		// linearization: the GET captured the object before the second request
		s.emitGet(b, "k", Resp{Status: gw.rec.Code, Header: gw.rec.Header(), Body: gw.rec.Body.Bytes()})
		if second == "overwrite" {
			s.emitPut(b, "k", next, r2)
			neu = next
			for i := range more {
				s.emitPut(b, "k", more[i], moreR[i])
				neu = more[i]
			}
		} else {
			s.emitOp("del", []string{hs(b), hs("k")}, obsT{r: r2})
		}
		s.Get(b, "k", "")
		_ = cur
		nontrivial(kind + "|slow-reader-" + second)
	}
	// (3) fs backends: a slow upload of a key below K overlaps an upload of K itself (an object and
	// something below it cannot both be stored: one of the two is refused, whichever it is, and
	// every upload that was acknowledged is there afterwards)
	if kind != "mem" && kind != "bolt" {
		for i, pair := range [][2]string{{"nest/leaf", "nest"}, {"top", "top/below"}} {
			slowKey, fastKey := pair[0], pair[1]
			slowBody, fastBody := []byte(fmt.Sprintf("slow-%d", i)), []byte(fmt.Sprintf("fast-%d", i))
			gr := &gatedReader{data: append([]byte{}, slowBody...), entered: make(chan struct{}), release: make(chan struct{})}
			done := make(chan Resp, 1)
			go func() {
				done <- do(s.h, Req{Method: "PUT", Path: "/" + b + "/" + slowKey, Reader: gr, Header: [][2]string{{"Content-Length", strconv.Itoa(len(slowBody))}}})
			}()
			if !waitOr(gr.entered, 5*time.Second) {
				emit("c07", "HANG", hs("PUT never started reading its body"))
				break
			}
			rf, hung := doDeadline(s.h, Req{Method: "PUT", Path: "/" + b + "/" + fastKey, Body: fastBody}, 5*time.Second)
			close(gr.release)
			var rs Resp
			select {
			case rs = <-done:
			case <-time.After(5 * time.Second):
				hung = true
			}
			if hung {
				emit("c07", "HANG", hs("overlapping uploads of a key and of a key below it do not both complete"))
				break
			}
			emit("c07", "NOMODEL")
			for _, kv := range []struct {
				key  string
				body []byte
				r    Resp
			}{{slowKey, slowBody, rs}, {fastKey, fastBody, rf}} {
				g := do(s.h, Req{Method: "GET", Path: "/" + b + "/" + kv.key})
				switch {
				case kv.r.Status == 200 && (g.Status != 200 || string(g.Body) != string(kv.body)):
					emit("c07", "BAD", hs(fmt.Sprintf("%s: PUT %s was acknowledged (200) while a PUT of %s overlapped it, but GET answers %d %q", kind, kv.key, map[bool]string{true: fastKey, false: slowKey}[kv.key == slowKey], g.Status, truncate(g.Body, 40))))
				case kv.r.Status != 200 && g.Status == 200:
					emit("c07", "BAD", hs(fmt.Sprintf("%s: PUT %s was refused (%d) but the key is served", kind, kv.key, kv.r.Status)))
				default:
					emit("c07", "GOOD", hs("overlapping nested uploads: "+kv.key))
				}
			}
			lr := do(s.h, Req{Method: "GET", Path: "/" + b})
			if lr.Status != 200 {
				emit("c07", "BAD", hs(fmt.Sprintf("%s: the bucket cannot be listed after overlapping nested uploads (%d)", kind, lr.Status)))
			}
			nontrivial(kind + "|nested-overlap|" + slowKey)
		}
	}
	s.end()
}

type cop struct {
	name string
	args []string
	run  func() obsT
}

func c07Rounds(kind string, rng *Rng, nrounds, width int, versioned bool) {
	s := newSess("c07", kind, SessOpts{})
	b := singleBucketName
	if !isSingle(kind) {
		s.MkBucket(b)
	}
	if versioned {
		s.SetVersioning(b, true)
	}
	keys := []string{"k1", "k2", "k3", "d/k4"}
	nk := 1 + rng.Intn(len(keys))
	for round := 0; round < nrounds; round++ {
		var ops []cop
		multi := rng.Intn(4) == 0 // a round with a cross-key operation (searched over all permutations)
		w := width
		if multi && w > 5 {
			w = 5
		}
		for i := 0; i < w; i++ {
			k := keys[rng.Intn(nk)]
			if w > 6 {
				k = keys[i%len(keys)] // wide rounds: spread over all keys so that the per-key search stays small
			}
			body := []byte(fmt.Sprintf("r%d-c%d-%s", round, i, string(rng.Bytes(3))))
			x := rng.Intn(100)
			switch {
			case x < 40:
				ops = append(ops, cop{"put", []string{hs(b), hs(k), hx(body), "-"}, func() obsT {
					return obsT{r: do(s.h, Req{Method: "PUT", Path: "/" + b + "/" + k, Body: body})}
				}})
			case x < 70:
				ops = append(ops, cop{"get", []string{hs(b), hs(k), "-"}, func() obsT { return obsT{r: do(s.h, Req{Method: "GET", Path: "/" + b + "/" + k})} }})
			case x < 78:
				ops = append(ops, cop{"head", []string{hs(b), hs(k), "-"}, func() obsT { return obsT{r: do(s.h, Req{Method: "HEAD", Path: "/" + b + "/" + k})} }})
			case multi && x >= 85 && x < 92:
				// a multi-object delete of two keys (one request, two keys: a cross-key operation)
				k2 := keys[rng.Intn(nk)]
				ops = append(ops, cop{"mdel", []string{hs(b), hs(k) + ":," + hs(k2) + ":"}, func() obsT {
					body := "<Delete><Object><Key>" + xmlEsc(k) + "</Key></Object><Object><Key>" + xmlEsc(k2) + "</Key></Object></Delete>"
					r := do(s.h, Req{Method: "POST", Path: "/" + b + "?delete", Body: []byte(body)})
					var deleted []string
					for _, blk := range xmlBlocks(string(r.Body), "Deleted") {
						if ks := xmlAll(blk, "Key"); len(ks) > 0 {
							deleted = append(deleted, ks[0])
						}
					}
					return obsT{r: r, names: deleted}
				}})
			case x < 92 || !multi:
				ops = append(ops, cop{"del", []string{hs(b), hs(k)}, func() obsT { return obsT{r: do(s.h, Req{Method: "DELETE", Path: "/" + b + "/" + k})} }})
			default:
				k2 := keys[rng.Intn(nk)]
				ops = append(ops, cop{"copy", []string{hs(b), hs(k), hs(b), hs(k2)}, func() obsT {
					r := do(s.h, Req{Method: "PUT", Path: "/" + b + "/" + k2, Body: []byte{}, Header: [][2]string{{"X-Amz-Copy-Source", "/" + b + "/" + k}}})
					et := ""
					if e := xmlAll(string(r.Body), "ETag"); len(e) > 0 {
						et = e[0]
					}
					return obsT{r: r, etag: et}
				}})
			}
		}
		results := make([]obsT, len(ops))
		var wg sync.WaitGroup
		start := make(chan struct{})
		for i := range ops {
			wg.Add(1)
			go func(i int) {
				defer wg.Done()
				<-start
				results[i] = ops[i].run()
			}(i)
		}
		close(start)
		doneCh := make(chan struct{})
		go func() { wg.Wait(); close(doneCh) }()
		if !waitOr(doneCh, 20*time.Second) {
			emit("c07", "HANG", hs("a round of concurrent requests did not complete (deadlock?)"))
			return
		}
		emit("c07", "RB")
		for i := range ops {
			s.emitOp(ops[i].name, ops[i].args, results[i])
		}
		// sequential probes after the round pin the state down: they are the last operations
		// of the round's linearization
		emit("c07", "RP")
		probe := keys[:nk]
		if w > 6 {
			probe = keys
		}
		for _, k := range probe {
			s.Get(b, k, "")
		}
		emit("c07", "RE")
		nontrivial(fmt.Sprint(kind, versioned, round))
	}
	for _, k := range keys[:nk] {
		s.Get(b, k, "")
	}
	s.List(ListReq{Bucket: b, MaxKeys: -1})
	s.end()
}

// deterministic witness of the non-atomic copy: the copy's GetObject and PutObject are separated
// by an acknowledged PUT of the same key (forced through a wrapper that runs the library's own
// CopyObject helper)
func c07CopyWitness(kind string) {
	if isSingle(kind) {
		return
	}
	st := newStore(kind)
	rec := &recBackend{inner: st.Backend, gateCopy: true, gateEntered: make(chan struct{}), gateRelease: make(chan struct{})}
	s := &Sess{prop: "c07", kind: kind, st: st, h: newServer(rec)}
	emit("c07", "H", kind, "auto=0,versioned=0,pages=0,failpage=0", "-")
	b := singleBucketName
	s.MkBucket(b)
	s.Put(b, "k", []byte("OLD"), nil)
	done := make(chan Resp, 1)
	go func() {
		done <- do(s.h, Req{Method: "PUT", Path: "/" + b + "/k", Body: []byte{}, Header: [][2]string{{"X-Amz-Copy-Source", "/" + b + "/k"}}})
	}()
	if !waitOr(rec.gateEntered, 5*time.Second) {
		emit("c07", "HANG", hs("copy never reached its PutObject"))
		s.end()
		return
	}
	rec.gateCopy = false // the concurrent PUT below is not part of the copy
	r2 := do(s.h, Req{Method: "PUT", Path: "/" + b + "/k", Body: []byte("NEW")})
	rec.gateCopy = true
	close(rec.gateRelease)
	r1 := <-done
	emit("c07", "RB")
	et := ""
	if e := xmlAll(string(r1.Body), "ETag"); len(e) > 0 {
		et = e[0]
	}
	s.emitOp("copy", []string{hs(b), hs("k"), hs(b), hs("k")}, obsT{r: r1, etag: et})
	s.emitPut(b, "k", []byte("NEW"), r2)
	emit("c07", "RP")
	rec.gateCopy = false
	s.Get(b, "k", "")
	emit("c07", "RE")
	s.end()
}

func init() { runners["c07race"] = runC07Race }

// the same workload, reduced, for the binary built with the race detector (the trace is not
// checked there: the detector's report is the result)
func runC07Race(tier string, seed uint64) {
	rng := NewRng(seed)
	for _, kind := range allKinds {
		c07Forced(kind, rng)
		c07Rounds(kind, rng, 6, 4, false)
		c07Rounds(kind, rng, 3, 16, false)
		c07MultipartForced(kind)
		mpSlowPart("c07", kind)
		c07MultipartRounds(kind, rng, 8)
		c07CopyStorm(kind, 8, 12)
		c07AutoBucketFirstUse(kind, 6)
		c07MetaStorm(kind, 40, 4)
		c07MultiDeleteStorm(kind, false, 8, 6)
	}
	c07Rounds("mem", rng, 8, 4, true)
	c07MultiDeleteStorm("mem", true, 8, 6)
	c07VersionStress(rng, 8, 30)
}

// c07RequestIDs: the server's own per-request bookkeeping under concurrent load. Every response carries the
// request id the server counted it under; simultaneous requests of any kind get distinct ids and the ids handed
// out are exactly as many as the requests served (no sequential order gives two requests one id)
func c07RequestIDs(kind string, clients, per int) {
	s := newSess("c07", kind, SessOpts{})
	emit("c07", "NOMODEL")
	b := singleBucketName
	if !isSingle(kind) {
		do(s.h, Req{Method: "PUT", Path: "/" + b})
	}
	do(s.h, Req{Method: "PUT", Path: "/" + b + "/idk", Body: []byte("x")})
	ids := make([][]string, clients)
	var wg sync.WaitGroup
	start := make(chan struct{})
	for c := 0; c < clients; c++ {
		wg.Add(1)
		go func(c int) {
			defer wg.Done()
			<-start
			for i := 0; i < per; i++ {
				var r Resp
				switch (c + i) % 3 {
				case 0:
					r = do(s.h, Req{Method: "HEAD", Path: "/" + b + "/idk"})
				case 1:
					r = do(s.h, Req{Method: "GET", Path: "/" + b + "/nosuchkey"})
				default:
					r = do(s.h, Req{Method: "HEAD", Path: "/" + b})
				}
				ids[c] = append(ids[c], r.Header.Get("x-amz-request-id"))
			}
		}(c)
	}
	close(start)
	doneCh := make(chan struct{})
	go func() { wg.Wait(); close(doneCh) }()
	if !waitOr(doneCh, 60*time.Second) {
		emit("c07", "HANG", hs("simultaneous cheap requests did not complete (deadlock?)"))
		return
	}
	seen := map[string]int{}
	n, dup, empty := 0, 0, 0
	for _, l := range ids {
		for _, id := range l {
			n++
			if id == "" {
				empty++
			} else if seen[id]++; seen[id] > 1 {
				dup++
			}
		}
	}
	msg := fmt.Sprintf("%s: %d clients x %d simultaneous requests: %d responses, %d distinct request ids, %d responses repeat the id of another request, %d carry none", kind, clients, per, n, len(seen), dup, empty)
	if dup == 0 && empty == 0 {
		emit("c07", "GOOD", hs(msg))
	} else {
		emit("c07", "BAD", hs("S:lost-update-in-the-request-counter "+msg))
	}
	nontrivial(kind + "|request-ids")
	s.end()
}

func runC07(tier string, seed uint64) {
	rng := NewRng(seed)
	c07RequestIDs("mem", 16, 2500)
	c07RequestIDs("bolt", 16, 800)
	emit("c07", "H", "fsmem", "auto=0,versioned=0,pages=0,failpage=0", "-")
	emit("c07", "NOMODEL")
	c07PruneRace()
	emit("c07", "E")
	rounds, reps := 25, 2
	if tier == "thorough" {
		rounds, reps = 60, 12
	}
	for i := 0; i < reps; i++ {
		c07VersionStress(rng, 16, 40)
	}
	for _, kind := range allKinds {
		c07Forced(kind, rng)
		if kind == "mem" || kind == "bolt" {
			c07CopyWitness(kind)
		}
		c07CopyStorm(kind, 8, 12)
		c07AutoBucketFirstUse(kind, 6)
		c07MetaStorm(kind, 40, 4)
		c07MultiDeleteStorm(kind, false, 8, 6)
		for rep := 0; rep < reps; rep++ {
			for _, width := range []int{2, 4, 6, 16} {
				c07Rounds(kind, rng, rounds, width, false)
			}
		}
		if kind == "mem" {
			for rep := 0; rep < reps; rep++ {
				c07Rounds(kind, rng, rounds, 4, true)
			}
			c07MultiDeleteStorm(kind, true, 8, 6)
		}
		c07MultipartForced(kind)
		mpSlowPart("c07", kind)
		for rep := 0; rep < reps; rep++ {
			c07MultipartRounds(kind, rng, rounds)
		}
	}
	sample("forced interleavings on every backend: a PUT whose body reader is gated (slow uploader) while a GET of the same key, a PUT of another key and a listing by other clients must complete and see the old object; a GET whose ResponseWriter is gated (slow reader) overlapped by an overwrite and by a delete of the same key — the download must deliver in full the object it captured; on the fs backends a slow upload of K/x overlapped by an upload of K (and the other way round): every acknowledged upload is served afterwards")
	sample("16 clients x 40 simultaneous versioned PUTs (two thirds on one hot key) on the memory backend: every acknowledged upload has a version id of its own under which exactly its bytes are served; the same workload (reduced) runs in a binary built with -race, whose reports on gofakes3 code are violations")
	sample("multipart: the backend write of a CompleteMultipartUpload is held open while a part upload, a second complete, an abort and a part listing of the same upload arrive (both must finish; responses must have a sequential explanation); rounds of 2..5 simultaneous part uploads / completes / aborts / part listings / reads over 2..3 pending uploads on 1..2 keys, searched for a sequential order on the model")
	sample("rounds of 2, 4, 6 and 16 simultaneous requests (put with unique bodies / get / head / delete / copy / two-key multi-delete over 1..4 keys; memory backend also with versioning enabled, 4 requests per round): a round is accepted iff some sequential order of its requests reproduces every observed response (status, body, ETag, length, version id) on the model — searched per key for single-key rounds, over all permutations for rounds with a copy")
}
